"""Driver: python -m harness.run <ID> <quick|thorough>"""
from __future__ import annotations

import importlib
import json
import multiprocessing as mp
import os
import sys
import time

from . import common
from .common import EXIT_HARNESS, EXIT_OK, EXIT_VIOLATION, VERIF

MODULES = {
    "C01": "harness.c01_sound", "C02": "harness.c02_tight", "C03": "harness.c03_equiv",
    "C04": "harness.c04_sam", "C05": "harness.c05_exploit", "C06": "harness.c06_shapley",
    "C07": "harness.c07_monotone", "C08": "harness.c08_function", "C09": "harness.c09_env",
    "C10": "harness.c10_generators", "C11": "harness.c11_search", "C12": "harness.c12_evaluate",
    "C13": "harness.c13_solvers", "C14": "harness.c14_regret", "C15": "harness.c15_normalize",
    "C16": "harness.c16_linear", "C17": "harness.c17_object", "C18": "harness.c18_coalitions",
    "C19": "harness.c19_saved", "C20": "harness.c20_crash",
}


def log(*a):
    print(*a, flush=True)


def main(argv):
    pid, tier = argv[1], argv[2]
    seed = int(os.environ.get("VERIF_SEED", "0") or 0)
    repo = os.environ.get("VERIF_REPO", "/repo")
    t0 = time.time()
    modname = MODULES[pid]
    mod = importlib.import_module(modname)
    if hasattr(mod, "main"):          # harness with its own driver (e.g. C18 bit-vectors, C20 FS model)
        return mod.main(pid, tier, seed, repo)
    return generic_main(mod, modname, pid, tier, seed, repo, t0)


def generic_main(mod, modname, pid, tier, seed, repo, t0):
    heavy = bool(getattr(mod, "HEAVY", False))
    tasks = list(mod.tasks(tier, seed))
    budget = getattr(mod, "BUDGET_S", {"quick": 240, "thorough": 2400})[tier]
    if os.environ.get("VERIF_BUDGET_S"):          # smoke runs of a tier under a smaller wall budget (skipped tasks are reported as such)
        budget = min(budget, int(os.environ["VERIF_BUDGET_S"]))
    opts_base = {"timeout_ms": getattr(mod, "TIMEOUT_MS", {"quick": 10000, "thorough": 120000})[tier],
                 "max_depth": getattr(mod, "MAX_DEPTH", 400), "max_paths": getattr(mod, "MAX_PATHS", 20000),
                 "max_task_s": getattr(mod, "MAX_TASK_S", {"quick": 40, "thorough": 600})[tier]}
    n_canary = getattr(mod, "CANARY_TASKS", 3)
    n_x = getattr(mod, "XCHECK_TASKS", 6)
    xs = set(range(min(2, len(tasks))))
    if len(tasks) > 2:
        step = max(1, len(tasks) // max(1, n_x))
        xs |= set(range(0, len(tasks), step))
    import tempfile
    dump_dir = tempfile.mkdtemp(prefix=f"symx_smt_{pid}_")
    dump_idx = set(range(0, len(tasks), max(1, len(tasks) // 6)))
    # which package functions ran symbolically is recorded on a spread of tasks (the profiler slows a task several times)
    kinds_seen, prof_idx = set(), {0, 1}
    for i, p in enumerate(tasks):
        kd = (p.get("kind"), p.get("solver"), p.get("computer"), p.get("part"), p.get("via"), p.get("what"), p.get("pred"),
              str(p.get("key", "")).split("/")[0])
        if kd not in kinds_seen and len(prof_idx) < 16:
            kinds_seen.add(kd)
            prof_idx.add(i)
    jobs = []
    for i, p in enumerate(tasks):
        o = dict(opts_base)
        if i in dump_idx:
            o["dump_dir"] = dump_dir
        o["canary"] = i < n_canary or p.get("canary", False)
        o["xcheck"] = i in xs and not p.get("noxcheck")
        o["profile"] = i in prof_idx
        o["xcheck_n"] = getattr(mod, "XCHECK_VECTORS", 3)
        jobs.append((modname, p, o))
    nproc = min(int(os.environ.get("VERIF_PROCS", "16")), max(1, len(jobs)))
    log(f"[{pid}/{tier}] {len(jobs)} tasks on {nproc} processes, repo={repo}, seed={seed}")
    ctx = mp.get_context("fork")
    results, skipped = [], 0
    # The patched package is loaded ONCE here and every task runs in a child forked from this pristine state
    # (maxtasksperchild=1): module-level caches / globals of the package never leak from one task into another,
    # so every history a task exercises is spelled out in the task itself and replays deterministically.
    common._worker_init(heavy, repo)
    with ctx.Pool(nproc, maxtasksperchild=1) as pool:
        it = pool.imap_unordered(common.run_task_symbolic, jobs, chunksize=getattr(mod, "CHUNK", 1))
        for k in range(len(jobs)):
            remaining = budget - (time.time() - t0)
            try:
                r = it.next(timeout=max(1.0, remaining))
            except mp.TimeoutError:
                skipped = len(jobs) - len(results)
                donek = {r.get("key") for r in results}
                log(f"[{pid}] wall budget {budget}s reached: {skipped} tasks not finished (reported, not counted): "
                    + "; ".join(j[1]["key"] for j in jobs if j[1]["key"] not in donek)[:600])
                pool.terminate()
                break
            results.append(r)
    cross = cross_solver(dump_dir, pid)
    return finish(mod, modname, pid, tier, seed, repo, t0, results, skipped, heavy, len(jobs), extra_cov={"cross_solver_cvc5": cross},
                  force_harness_error=cross["disagree"] > 0)


def cross_solver(dump_dir, pid, limit=16, timeout=30):
    """Second opinion: a sample of this run's non-FP obligations (SMT-LIB2 as handed to z3) is re-decided by the cvc5 binary."""
    import glob
    import shutil
    import subprocess
    res = {"checked": 0, "agree": 0, "disagree": 0, "inconclusive": 0, "solver": "cvc5 binary on PATH"}
    exe = shutil.which("cvc5")
    files = sorted(glob.glob(os.path.join(dump_dir, "*.smt2")))[:limit]
    try:
        if exe is None:
            res["solver"] = "cvc5 not found"
            return res
        for fn in files:
            first = open(fn).readline()
            want = "unsat" if "z3=unsat" in first else "sat"
            try:
                p = subprocess.run([exe, fn], capture_output=True, text=True, timeout=timeout)
                got = (p.stdout.strip().splitlines() or ["?"])[0]
                if "(error" in p.stdout or "(error" in p.stderr:
                    got = "error"
            except subprocess.TimeoutExpired:
                got = "timeout"
            res["checked"] += 1
            if got == want:
                res["agree"] += 1
            elif got in ("sat", "unsat"):
                res["disagree"] += 1
                log(f"[{pid}] SOLVER DISAGREEMENT z3={want} cvc5={got}: {first.strip()}")
            else:
                res["inconclusive"] += 1
    finally:
        shutil.rmtree(dump_dir, ignore_errors=True)
    return res


def finish(mod, modname, pid, tier, seed, repo, t0, results, skipped, heavy, n_jobs, extra_cov=None, force_harness_error=False):
    herr = [r for r in results if r.get("harness_error")]
    for r in herr[:5]:
        log(f"[{pid}] HARNESS ERROR in task {r.get('key')}: {r['harness_error']}\n{r.get('traceback', '')}")
    tot = {"obligations": 0, "discharged": 0, "unknown": 0, "nontrivial": 0, "paths": 0, "queries": 0,
           "solver_s": 0.0, "paths_cut": 0, "branch_points": 0, "vacuous": 0}
    funcs = set()
    violations, canaries, xjobs, samples = [], [], [], []
    for r in results:
        if r.get("harness_error"):
            continue
        if r.get("vacuous"):
            tot["vacuous"] += 1
            continue
        for k in ("obligations", "discharged", "unknown", "nontrivial", "paths"):
            tot[k] += r.get(k, 0)
        st = r.get("stats", {})
        tot["queries"] += st.get("queries", 0)
        tot["solver_s"] += st.get("solver_s", 0.0)
        tot["paths_cut"] += st.get("paths_cut", 0)
        tot["tasks_time_cut"] = tot.get("tasks_time_cut", 0) + (1 if st.get("task_time_budget_exhausted") else 0)
        tot["branch_points"] += st.get("branch_points", 0)
        funcs |= set(r.get("functions", []))
        for v in r["violations"]:
            violations.append((r, v))
        for c in r["canary"]:
            canaries.append((r, c))
        for x in r["xcheck"]:
            xjobs.append((r, x))
        if len(samples) < 4 and r.get("samples"):
            samples.append({"task": r["params"], "obligations": r["samples"], "paths": r.get("paths")})
    findings, _fixed = common.load_known_findings()
    known_sigs = {f["signature"]: f for f in findings if f["property"] == pid}
    status = EXIT_OK
    notes = []
    # ---------------- cross-check of the encoding against the unpatched float64 package
    validated, mism = 0, []
    co_hits = []
    srv = None
    try:
        if xjobs or violations or canaries:
            srv = common.ConcreteServer(heavy=heavy, repo=repo)
        for r, x in xjobs:
            vals = dict(x["values"])
            vals["__choices__"] = x["predicted"]["choices"]
            ans = srv.ask({"module": modname, "params": r["params"], "values": vals})
            if ans["exception"]:
                mism.append((r["key"], "exception in concrete run: " + str(ans["exception"]) + " " + str(ans.get("message"))))
                continue
            # claims that only exist in the float64 world (e.g. the dtype of a returned table): evaluated on the cross-check vectors
            for c in (ans.get("failed") or []):
                if c.split(":")[0] in getattr(mod, "CONCRETE_ONLY", ()) and ans.get("assumptions_ok", True):
                    co_hits.append((dict(r, harness_error="claim exists only in the float64 world"), vals, c))
            bad = compare_outputs(x["predicted"]["outputs"], ans["outputs"], tol=getattr(mod, "XCHECK_TOL", 1e-7),
                                  ignore=getattr(mod, "XCHECK_IGNORE", ()))
            if bad:
                mism.append((r["key"], bad[:3]))
            else:
                validated += 1
        if mism:
            status = EXIT_HARNESS
            for m in mism[:5]:
                log(f"[{pid}] ENCODING MISMATCH (symbolic terms vs unpatched float64 run) task {m[0]}: {m[1]}")
        # ---------------- concrete fallback: a task whose symbolic run hit a boundary the engine cannot encode (e.g. the code
        # converts a value to a C int / float) is executed on its concrete test vectors in the unpatched package; a claim that
        # fails there is a violation demonstrated on the real code (found without the solver - flagged as such)
        fallback_hits = []
        # ... and so is a task on which the solver stayed inconclusive (unknown obligations, paths cut by a budget): its verdict is
        # "not decided", and the test vectors are at least tried concretely (bug hunting, flagged as such)
        undecided = [r for r in results if (r.get("unknown", 0) > 0 or (r.get("stats") or {}).get("paths_cut", 0) > 0)
                     and not r.get("violations")] if getattr(mod, "FALLBACK_ON_UNDECIDED", False) else []
        undecided.sort(key=lambda r: -(r.get("unknown", 0) + (r.get("stats") or {}).get("paths_cut", 0)))
        nvec = getattr(mod, "FALLBACK_VECTORS", 3)
        for r in herr[:12] + undecided[:getattr(mod, "FALLBACK_TASKS", 6)]:
            if "harness_error" not in r:
                r = dict(r, harness_error="solver inconclusive on this task (unknown obligations / paths cut by budget)")
            try:
                vecs = list(mod.test_vectors(r["params"])) if hasattr(mod, "test_vectors") else []
            except Exception:  # noqa: BLE001
                vecs = []
            for vec in vecs[:nvec]:
                vals = common._ser_model(vec)
                fjob = {"module": modname, "params": r["params"], "values": vals, "limit_s": 120, "lenient": True}
                ans = srv.ask(fjob) if srv else None
                if ans is None:
                    srv = common.ConcreteServer(heavy=heavy, repo=repo)
                    ans = srv.ask(fjob)
                if ans.get("exception") in ("HarnessError", "TimeoutError", "MemoryError"):
                    continue          # the concrete run itself did not finish: nothing learnt
                bad = [c for c in (ans.get("failed") or []) if not c.startswith("canary")] or (["no-exception"] if ans.get("exception") else [])
                if ans.get("assumptions_ok", True) and bad:
                    fallback_hits.append((r, vals, bad[0]))
                    break
        # claims that exist only in the float64 world are evaluated for EVERY task on its first test vector (the cross-check above
        # only covers tasks whose path could be predicted for a vector)
        if getattr(mod, "CONCRETE_ONLY", ()):
            seen_keys = {h[0].get("key") for h in co_hits}
            t_co = time.time()
            co_times = []
            for r in sorted(results, key=lambda r: r.get("wall_s", 0))[: getattr(mod, "CONCRETE_ONLY_TASKS", 300)]:
                if r.get("harness_error") or r.get("key") in seen_keys:
                    continue
                if time.time() - t_co > getattr(mod, "CONCRETE_ONLY_WALL_S", 45):
                    break             # cheapest tasks first, within a wall allowance (reported in the evidence as concrete_only_tasks)
                try:
                    vecs = list(mod.test_vectors(r["params"]))[:1]
                except Exception:  # noqa: BLE001
                    vecs = []
                for vec in vecs or [{}]:
                    vals = common._ser_model(vec)
                    if srv is None:
                        srv = common.ConcreteServer(heavy=heavy, repo=repo)
                    t_job = time.time()
                    ans = srv.ask({"module": modname, "params": r["params"], "values": vals, "limit_s": 8})
                    co_times.append((round(time.time() - t_job, 1), r.get("key")))
                    if ans.get("exception") or not ans.get("assumptions_ok", True):
                        continue
                    for c in (ans.get("failed") or []):
                        if c.split(":")[0] in mod.CONCRETE_ONLY:
                            co_hits.append((dict(r, harness_error="claim exists only in the float64 world"), vals, c))
        if getattr(mod, "CONCRETE_ONLY", ()):
            log(f"[{pid}] float64-only claims evaluated on {len(co_times)} tasks in {time.time() - t_co:.0f}s; slowest: {sorted(co_times, reverse=True)[:3]}")
        fallback_hits += co_hits
        fb_done = set()
        for r, vals, claim in fallback_hits:
            sig = f"{pid}/concrete-fallback/{claim.split(':')[0]}"
            if sig in fb_done:
                continue
            fb_done.add(sig)
            path = common.write_replay(pid, modname, r["params"], vals, claim, heavy, lenient=True)
            rc, outp = common.run_replay(path, repo)
            if rc == 1:
                violations.append((r, {"name": claim, "status": "violated", "path": 0, "info": {"sig": sig, "fallback": True}, "model": vals,
                                       "slack_model": False}))
                log(f"[{pid}] symbolic run of task {r.get('key')} did not decide it ({r['harness_error'][:80]}); "
                    f"its concrete test vector violates claim {claim}")
        # ---------------- canaries: the harness must be able to see a false claim
        can_viol = [(r, c) for r, c in canaries if c["status"] == "violated"]
        can_rep = 0
        for r, c in can_viol[:3]:
            ans = srv.ask({"module": modname, "params": r["params"], "values": c["model"]})
            if c["name"] in ans.get("failed", []):
                can_rep += 1
        has_canary = hasattr(mod, "canaries")
        if has_canary and (not can_viol or not can_rep):
            status = EXIT_HARNESS
            log(f"[{pid}] CANARY NOT VIOLATED / NOT REPLAYED ({len(can_viol)} violated, {can_rep} replayed): harness is blind")
        # ---------------- violations: replay first
        reported, known_hit, not_reproduced = [], [], []
        by_sig = {}
        for r, v in violations:
            sig = signature(mod, pid, r["params"], v)
            by_sig.setdefault(sig, []).append((r, v))
        for sig, lst in sorted(by_sig.items()):
            done = False
            for r, v in lst[:4]:
                if v["model"] is None:
                    continue
                path = common.write_replay(pid, modname, r["params"], v["model"], v["name"], heavy, expect=(v.get("info") or {}).get("type"),
                                           lenient=bool((v.get("info") or {}).get("fallback")))
                rc, outp = common.run_replay(path, repo)
                if rc == 1:
                    if sig in known_sigs:
                        known_hit.append((sig, path, known_sigs[sig]["text"]))
                    else:
                        reported.append((sig, path, v, r["params"]))
                    done = True
                    break
                else:
                    not_reproduced.append((sig, path, outp[-600:]))
            if not done and not any(s == sig for s, *_ in not_reproduced):
                not_reproduced.append((sig, None, "no model"))
        for sig, path, text in known_hit:
            log(f"KNOWN-FINDING: property={pid} {text}")
        for sig, path, v, params in reported:
            log(f"[{pid}] violated claim {v['name']} (signature {sig}) task {json.dumps(params)[:300]}")
            log(f"VIOLATION property={pid} replay={path}")
            status = EXIT_VIOLATION if status != EXIT_HARNESS else status
        sigs_reported = {s for s, *_ in reported} | {s for s, *_ in known_hit}
        soft = set(getattr(mod, "SOFT_SIGNATURES", ()))
        for sig, path, outp in not_reproduced:
            if sig in soft and sig not in sigs_reported:
                log(f"[{pid}] inconclusive (soft): counterexample for {sig} did not reproduce / violates an input assumption checked only concretely; not counted")
        nr = [x for x in not_reproduced if x[0] not in sigs_reported and x[0] not in soft]
        if nr:
            for sig, path, outp in nr[:5]:
                log(f"[{pid}] INCONCLUSIVE: solver counterexample for {sig} did not reproduce on the float64 code "
                    f"(replay {path}); encoding or stub suspect\n{outp}")
            if status == EXIT_OK:
                status = EXIT_HARNESS
    finally:
        if srv:
            srv.close()
    if herr or force_harness_error:
        status = EXIT_HARNESS if status == EXIT_OK else status
    if reported:
        status = EXIT_VIOLATION       # a violation that reproduces on the real code outranks harness trouble in the same run
    wall = time.time() - t0
    slow = sorted(((r.get("wall_s", 0), r.get("key")) for r in results), reverse=True)[:5]
    log(f"[{pid}] slowest tasks: " + "; ".join(f"{w:.1f}s {k}" for w, k in slow))
    cov = {
        "states": max(1, tot["paths"]),
        "transitions": max(1, tot["branch_points"] + tot["obligations"]),
        "traces_validated_against_impl": validated,
        "samples": samples or [{"note": "no non-trivial obligation sample recorded"}],
        "evaluations": max(1, tot["obligations"]),
        "distinct_nontrivial": tot["nontrivial"],
        "rule": "one evaluation = one (task, path, claim) obligation handed to z3 as assumptions ∧ path-condition ∧ ¬claim; "
                "non-trivial = the claim did not simplify to true syntactically before the solver was called; "
                "tasks are distinct structural skeletons (see bounds), so obligations are distinct by construction",
        "obligations": tot["obligations"], "discharged": tot["discharged"], "unknown_inconclusive": tot["unknown"],
        "paths": tot["paths"], "paths_cut_by_budget": tot["paths_cut"], "tasks_cut_by_task_time_budget": tot.get("tasks_time_cut", 0), "tasks": n_jobs, "tasks_finished": len(results),
        "tasks_skipped_by_wall_budget": skipped, "tasks_vacuous": tot["vacuous"], "tasks_harness_error": len(herr),
        "solver": "z3 " + _z3v(), "solver_queries": tot["queries"], "solver_seconds": round(tot["solver_s"], 3),
        "functions_encoded": sorted(funcs), "bounds": getattr(mod, "bounds_text", lambda t: "")(tier),
        "outside_claim": getattr(mod, "OUTSIDE", []), "stubs": getattr(mod, "STUBS", []),
        "canary": {"violated": len([1 for _, c in canaries if c["status"] == "violated"]), "total": len(canaries)},
        "violations_reported": len(reported), "known_findings_hit": [s for s, *_ in known_hit],
        "counterexamples_not_reproduced": len(nr), "encoding_mismatches": len(mism),
        "exhaustive": False,
        "explanation": "bounded symbolic execution of the real package source over z3 terms; every listed skeleton is decided "
                       "for all real values by the solver",
    }
    if extra_cov:
        cov.update(extra_cov)
    ev = {"property_id": pid, "tier": tier, "seed": seed, "level": "model_checking", "coverage": cov,
          "assumptions": getattr(mod, "ASSUMPTIONS", []), "wall_s": round(wall, 2),
          "violations": len(reported)}
    # evidence describes a run against /repo itself; runs against a scratch copy (self-test mutants, seeded changes:
    # VERIF_REPO=<copy>) must never overwrite it and write to a side directory instead
    evdir = os.path.join(VERIF, "evidence") if os.path.realpath(repo) == "/repo" else \
        os.environ.get("VERIF_EVIDENCE_DIR", "/tmp/verif-evidence-scratch")
    os.makedirs(evdir, exist_ok=True)
    with open(os.path.join(evdir, f"{pid}.json"), "w") as f:
        json.dump(ev, f, indent=1, default=str)
    log(f"[{pid}/{tier}] obligations={tot['obligations']} discharged={tot['discharged']} unknown={tot['unknown']} "
        f"paths={tot['paths']} cut={tot['paths_cut']} queries={tot['queries']} solver_s={tot['solver_s']:.1f} "
        f"xcheck={validated} canary={cov['canary']} wall={wall:.1f}s exit={status}")
    return status


def signature(mod, pid, params, v):
    if hasattr(mod, "signature"):
        s = mod.signature(params, v)
        if s:
            return s
    info = v.get("info") or {}
    if info.get("sig"):
        return info["sig"]
    fam = v["name"].split(":")[0]
    if v["status"] == "exception":
        fam = "exception/" + str(info.get("type"))
    return f"{pid}/{fam}"


def compare_outputs(pred, got, tol=1e-7, ignore=()):
    bad = []
    for k, pv in pred.items():
        if pv == "?" or any(k.startswith(p) for p in ignore):
            continue
        if k not in got:
            bad.append((k, pv, "<missing>"))
            continue
        gv = got[k]
        if isinstance(pv, bool) or isinstance(gv, bool):
            if bool(pv) != bool(gv):
                bad.append((k, pv, gv))
        elif pv is None or gv is None:
            if not (pv is None and gv is None):
                bad.append((k, pv, gv))
        elif isinstance(pv, str) or isinstance(gv, str):
            if pv != gv:
                bad.append((k, pv, gv))
        else:
            if abs(float(pv) - float(gv)) > tol * (1 + abs(float(pv)) + abs(float(gv))):
                bad.append((k, pv, gv))
    return bad


def _z3v():
    try:
        import z3
        return z3.get_version_string()
    except Exception:  # noqa: BLE001
        return "?"


if __name__ == "__main__":
    sys.exit(main(sys.argv))
