"""C09 — the reveal-one-coalition environment reflects exactly what was revealed."""
from __future__ import annotations

import random
from fractions import Fraction

from . import families as F

ID = "C09"
HEAVY = True
NONLINEAR = "uf"
BUDGET_S = {"quick": 230, "thorough": 3000}
TIMEOUT_MS = {"quick": 30000, "thorough": 300000}
COMPUTERS = {"superadditive": "sa", "superadditive_cached": "sa", "sam_apx_1": "sam"}
GAPS = ["exploitability", "l1_norm", "l2_norm", "linf_norm"]
ASSUMPTIONS = [
    "exact real arithmetic; hidden games = symbolic games of the class matching the computer (SA / SAM); draw k of the generator is the k-th "
    "vector of fresh variables, so one run stands for every generator family of that class (that families are in the class: C10)",
    "pre-state of the step: knowledge reached by real step() calls, then every unknown row overwritten with free stale bounds",
    "step budget: None or a free real B",
    "normalised-observation oracle: (v_S - sum of singleton values)/surplus (0 when the surplus is 0), written from the property text",
    "environments built through ModelInstance.get_env() with a harness generator registered in GENERATORS, and directly via ICG_Gym",
]
OUTSIDE = ["float rounding", "n>=5", "initially known coalitions other than the minimal set (one extra configuration at n=4)", "PPO / vectorised envs"]
STUBS = ["np proxy", "SymArray", "np.linalg.norm model", "generator stub (draw counter)", "SQ/SQRT uninterpreted"]


def bounds_text(tier):
    if tier == "quick":
        return "n=3: all 8 knowledge sets x every valid action x 3 computers x 4 gaps (budget None / symbolic), plus every out-of-order unstep history step(x),step(a),unstep(x), plus a second episode on the same env; n=4: 48 seeded states + 16 unstep histories"
    return "n=3 complete; n=4: all 1024 knowledge sets x one seeded action x seeded computer/gap"


def tasks(tier, seed):
    out = []

    def add(n, K, a, comp, gap, budget, via, extra_init=None, undo=None):
        d = {"key": f"n{n}/{comp}/{gap}/{budget}/{via}/K={','.join(map(str, K))}/a={a}" + (f"/init={extra_init}" if extra_init else "")
             + (f"/undo={undo}" if undo is not None else ""),
             "n": n, "K": K, "a": a, "computer": comp, "gap": gap, "budget": budget, "via": via, "init": extra_init or [], "undo": undo}
        out.append(d)
    rnd = random.Random(f"c09/{seed}")
    fam3, _ = F.family(3, tier, seed)
    add(3, [], 3, "superadditive", "exploitability", "none", "model")
    for comp in COMPUTERS:
        for gap in GAPS:
            for K in fam3:
                for a in F.extras(3):
                    if a in K:
                        continue
                    budget = rnd.choice(["none", "sym"])
                    via = "model" if rnd.random() < 0.3 else "direct"
                    add(3, K, a, comp, gap, budget, via)
    # hidden games of ANY class (no assumption): everything except "reward never positive" must still hold
    for K in fam3:
        for a in F.extras(3):
            if a not in K:
                add(3, K, a, rnd.choice(["superadditive", "superadditive_cached"]), rnd.choice(["exploitability", "l1_norm"]), "none", "direct")
                out[-1]["anyclass"] = True
                out[-1]["key"] += "/anyclass"
    # histories ending in an out-of-order unstep: step(x), step(a), unstep(x) — the unstep's own return values are checked
    for comp in COMPUTERS:
        for K in fam3:
            unk = [S for S in F.extras(3) if S not in K]
            for a in unk:
                for x in unk:
                    if x != a:
                        add(3, K, a, comp, rnd.choice(GAPS), rnd.choice(["none", "sym"]), "direct", undo=x)
    fam4, _ = F.family(4, tier, seed)
    for K in F.sample([k for k in fam4 if len(k) < 9], 128 if tier == "thorough" else 16, seed, "c09undo4"):
        unk = [S for S in F.extras(4) if S not in K]
        a, x = rnd.sample(unk, 2)
        add(4, K, a, rnd.choice(["superadditive", "superadditive_cached"]), rnd.choice(["exploitability", "l1_norm"]), "none", "direct", undo=x)
    fam4 = [k for k in fam4 if len(k) < 10]
    for K in (fam4 if tier == "thorough" else F.sample(fam4, 48, seed, "c09n4")):
        a = rnd.choice([S for S in F.extras(4) if S not in K])
        comp = rnd.choice(["superadditive", "superadditive_cached", "superadditive_cached"] + (["sam_apx_1"] if tier == "thorough" else []))
        gap = rnd.choice(["exploitability", "l1_norm", "linf_norm"]) if comp != "sam_apx_1" else "l1_norm"
        add(4, K, a, comp, gap, rnd.choice(["none", "sym"]), rnd.choice(["direct", "model"]))
        if len(out) % 6 == 0:
            out[-1]["episode2"] = True
            out[-1]["key"] += "/episode2"
    for i, t in enumerate(out):
        if i % 3 == 1 and t["via"] == "direct":
            t["decoy"] = True
            t["key"] += "/decoy"
    # one configuration with additional initially-known coalitions
    add(4, [3], 12, "superadditive_cached", "exploitability", "none", "direct", extra_init=[5, 10])
    # the collection of initially known coalitions may list a coalition twice (and the minimal ones again); with a step budget
    add(4, [3], 12, "superadditive_cached", "exploitability", "sym", "direct", extra_init=[5, 10, 5, 1, 15])
    add(3, [], 3, "superadditive", "l1_norm", "sym", "direct", extra_init=[5, 5])
    # seven players: 119 explorable coalitions (more than one machine word of action indices / bit positions)
    if tier == "thorough":
        add(7, [], 126, "superadditive_cached", "l1_norm", "none", "direct")
        add(7, [125], 95, "superadditive_cached", "exploitability", "sym", "direct")
    return out


def _draw(inp, k, n):
    return [inp.const(0)] + [inp.real(f"d{k}v{S}") for S in range(1, 2 ** n)]


def setup(params, inp, lg):
    n = params["n"]
    ass = []
    for k in (1, 2, 3):
        v = _draw(inp, k, n)
        if params.get("anyclass"):
            continue            # hidden games of any class: bounds may cross, the gap may be negative
        ass += F.sam_constraints(v, n, lg) if COMPUTERS[params["computer"]] == "sam" else F.sa_constraints(v, n, lg)
    known = set(F.minimal(n)) | set(params["K"]) | set(params["init"])
    for S in range(2 ** n):
        if S not in known:
            inp.real(f"staleL{S}")
            inp.real(f"staleU{S}")
    if params["budget"] == "sym":
        inp.real("B")
    return ass


def _full(pk, n, vals):
    import numpy as np
    g = pk.game.IncompleteCooperativeGame(n)
    a = np.empty(2 ** n, dtype=object if pk.symbolic else float)
    for i, x in enumerate(vals):
        a[i] = x
    g.set_values(a)
    return g


def _gaps(pk):
    return pk.run_model.GAP_FUNCTIONS


def scenario(pk, params, inp):
    n = params["n"]
    C = pk.coalitions.Coalition
    counter = {"k": 0}

    def gen(*_a, **_k):
        counter["k"] += 1
        return _full(pk, n, _draw(inp, counter["k"], n))
    budget = None if params["budget"] == "none" else inp.real("B")
    gapf = _gaps(pk)[params["gap"]]
    if params.get("decoy"):
        # ANOTHER environment of the same size alive in the same process (its own hidden game, one more initially known coalition, a
        # step taken): module-level state keyed too coarsely must not leak into the environment under test
        dgame = pk.game.IncompleteCooperativeGame(n, pk.bounds.BOUNDS[params["computer"]])
        extra = [S for S in F.extras(n) if S not in params["init"]][-1]
        denv = pk.icg_gym.ICG_Gym(dgame, lambda: _full(pk, n, _draw(inp, 3, n)), [C(S) for S in F.minimal(n)] + [C(extra)], gapf, done_after_n_actions=budget)
        denv.reset()
        if any(denv.action_masks()):
            denv.step([i for i, ok in enumerate(denv.action_masks()) if ok][0])
        _ = (denv.reward, denv.done, list(denv.state))
    init = [C(S) for S in F.minimal(n)] + [C(S) for S in params["init"]]
    if params["via"] == "model" and not params["init"]:
        # the registry entry stays for the life of the (forked, single-task) process: the instance looks it up on every reset
        pk.generators.GENERATORS["__sym__"] = gen
        inst = pk.run_model.ModelInstance(number_of_players=n, game_class=params["computer"], game_generator="__sym__",
                                          gap_function=params["gap"], run_steps_limit=budget, seed=7)
        env = inst.get_env()
    else:
        game = pk.game.IncompleteCooperativeGame(n, pk.bounds.BOUNDS[params["computer"]])
        env = pk.icg_gym.ICG_Gym(game, gen, init, gapf, done_after_n_actions=budget)
    draws_after_init = counter["k"]
    ex = [c.id for c in env.explorable_coalitions]
    for S in params["K"]:
        env.step(ex.index(S))
    known = set(F.minimal(n)) | set(params["K"]) | set(params["init"])
    for S in range(2 ** n):          # arbitrary valid pre-state: stale bounds on every unknown row
        if S not in known:
            env.incomplete_game.set_lower_bound(inp.real(f"staleL{S}"), C(S))
            env.incomplete_game.set_upper_bound(inp.real(f"staleU{S}"), C(S))
    if params.get("undo") is not None:
        env.step(ex.index(params["undo"]))
        env.step(ex.index(params["a"]))
        obs, reward, done, trunc, info = env.unstep(ex.index(params["undo"]))
    else:
        obs, reward, done, trunc, info = env.step(ex.index(params["a"]))
    known2 = known | {params["a"]}
    g = env.incomplete_game
    out = {"explorable": ex, "draws_after_init": draws_after_init, "obs": list(obs), "reward": reward, "done": bool(done),
           "truncated": bool(trunc), "chosen": int(info["chosen_coalition"]), "steps": int(env.steps_taken),
           "mask": [bool(x) for x in env.action_masks()], "state": list(env.state),
           "table": [[bool(g.is_value_known(C(S))), g.get_lower_bound(C(S)), g.get_upper_bound(C(S))] for S in range(2 ** n)],
           "prop_reward": env.reward, "prop_done": bool(env.done)}
    # reference: a FRESH game object knowing exactly K' with the hidden values
    hidden = _draw(inp, draws_after_init, n)
    fresh = pk.game.IncompleteCooperativeGame(n, pk.bounds.BOUNDS[params["computer"]])
    ks = sorted(known2)
    fresh.set_known_values([hidden[S] for S in ks], [C(S) for S in ks])
    fresh.compute_bounds()
    out["fresh_gap"] = gapf(fresh)
    if params.get("anyclass"):
        # outside the class "normalised" has no definition of its own (C15 speaks about superadditive games): the oracle is what the
        # library's normalisation yields on a copy of the hidden game
        cp = _full(pk, n, hidden)
        pk.normalize.normalize_game(cp)
        out["norm_ref"] = [cp.get_value(C(S)) for S in range(2 ** n)]
    out["fresh_widths_all_zero"] = bool(_all_zero(pk, fresh, n))
    # reset: new hidden game, minimal knowledge
    obs0, info0 = env.reset()
    out["reset"] = {"obs": list(obs0), "steps": int(env.steps_taken), "draws": counter["k"],
                    "known": [bool(env.incomplete_game.is_value_known(C(S))) for S in range(2 ** n)],
                    "grand": env.incomplete_game.get_value(C(2 ** n - 1)),
                    "info_game_grand": info0["game"].get_value(C(2 ** n - 1)),
                    "mask": [bool(x) for x in env.action_masks()], "done": bool(env.done)}
    # reference for "done right after reset": a fresh game knowing only the initial coalitions of the NEW hidden game
    hidden_r = _draw(inp, counter["k"], n)
    fr = pk.game.IncompleteCooperativeGame(n, pk.bounds.BOUNDS[params["computer"]])
    kr = sorted(set(F.minimal(n)) | set(params["init"]))
    fr.set_known_values([hidden_r[S] for S in kr], [C(S) for S in kr])
    fr.compute_bounds()
    out["reset"]["fresh_widths_all_zero"] = bool(_all_zero(pk, fr, n))
    if n > 3 and not params.get("episode2"):
        return out
    # second episode on the SAME environment object: rewards must come from the NEW hidden game
    hidden2 = _draw(inp, counter["k"], n)
    ep2 = {"reward0": env.reward}
    f0 = pk.game.IncompleteCooperativeGame(n, pk.bounds.BOUNDS[params["computer"]])
    k0 = sorted(set(F.minimal(n)) | set(params["init"]))
    f0.set_known_values([hidden2[S] for S in k0], [C(S) for S in k0])
    f0.compute_bounds()
    ep2["fresh0"] = gapf(f0)
    seq2 = list(params["K"]) + [params["a"]]
    last = None
    for S in seq2:
        last = env.step(ex.index(S))
    ep2["reward_after"] = last[1]
    ep2["obs_after"] = list(last[0])
    f1 = pk.game.IncompleteCooperativeGame(n, pk.bounds.BOUNDS[params["computer"]])
    k1 = sorted(set(k0) | set(seq2))
    f1.set_known_values([hidden2[S] for S in k1], [C(S) for S in k1])
    f1.compute_bounds()
    ep2["fresh_after"] = gapf(f1)
    ep2["table_after"] = [[bool(env.incomplete_game.is_value_known(C(S))), env.incomplete_game.get_lower_bound(C(S)),
                           env.incomplete_game.get_upper_bound(C(S))] for S in range(2 ** n)]
    out["episode2"] = ep2
    return out


def _all_zero(pk, g, n):
    w = g.get_upper_bounds() - g.get_lower_bounds()
    return all(bool(x == 0) for x in w)     # forks on symbolic widths: the path condition records the outcome


def _norm_ref(lg, v, S, n):
    """(v_S - sum of singletons) / surplus, or 0 when the surplus is zero; returns (value_if_nonzero, surplus)."""
    acc = v[S]
    for i in range(n):
        if S >> i & 1:
            acc = acc - v[1 << i]
    g = v[2 ** n - 1]
    for i in range(n):
        g = g - v[1 << i]
    return acc, g


def claims(params, inp, out, lg):
    n = params["n"]
    zero = lg.const(0)
    k = out["draws_after_init"]
    v = _draw(inp, k, n)
    known = set(F.minimal(n)) | set(params["K"]) | set(params["init"]) | {params["a"]}
    initial = set(F.minimal(n)) | set(params["init"])
    ex_ref = [S for S in range(2 ** n) if S not in initial]
    cl = [("explorable-are-initially-unknown", out["explorable"] == ex_ref),
          ("hidden-game-is-second-draw", k == 2),
          ("info-reports-revealed-id", out["chosen"] == (params["a"] if params.get("undo") is None else params["undo"])),
          ("steps-counted", out["steps"] == len(params["K"]) + 1),
          ("never-truncated", out["truncated"] is False)]
    for S in range(2 ** n):
        row = out["table"][S]
        if S in known:
            cl.append((f"known-carry-hidden-values:S={S}", lg.And(row[0] is True, lg.eq(row[1], v[S]), lg.eq(row[2], v[S]))))
        else:
            cl.append((f"others-unknown:S={S}", row[0] is False))
    cl.append(("mask-is-unknown-explorable", out["mask"] == [S not in known for S in ex_ref]))
    for i, S in enumerate(ex_ref):
        num, g = _norm_ref(lg, v, S, n)
        for tag, vec in (("obs", out["obs"]), ("state", out["state"])):
            if S in known and "norm_ref" in out:
                cl.append((f"{tag}-normalised-hidden-value:S={S}", lg.eq(vec[i], out["norm_ref"][S])))
            elif S in known:
                if lg.mode == "sym":
                    cl.append((f"{tag}-normalised-hidden-value:S={S}",
                               lg.And(lg.Implies(lg.Not(lg.eq(g, zero)), lg.truth(vec[i] * g == num)),
                                      lg.Implies(lg.eq(g, zero), lg.eq(vec[i], zero)))))
                else:
                    ref = 0.0 if float(g) == 0 else float(num) / float(g)
                    cl.append((f"{tag}-normalised-hidden-value:S={S}", lg.eq(vec[i], ref)))
            else:
                cl.append((f"{tag}-zero-when-unknown:S={S}", lg.eq(vec[i], zero)))
    cl.append(("reward-is-negated-fresh-gap", lg.And(lg.eq(out["reward"], zero - out["fresh_gap"]), lg.eq(out["prop_reward"], out["reward"]))))
    if not params.get("anyclass"):
        cl.append(("reward-never-positive", lg.le(out["reward"], zero)))
    nothing_left = all(S in known for S in ex_ref)
    if params["budget"] == "none":
        want_done = nothing_left or out["fresh_widths_all_zero"]
        cl.append(("done-iff-exhausted-or-degenerate", out["done"] == want_done))
    else:
        B = inp.real("B")
        steps = len(params["K"]) + 1
        over = lg.ge(lg.const(steps), B)
        cl.append(("done-iff-budget-or-exhausted-or-degenerate",
                   lg.Iff(out["done"], lg.Or(over, nothing_left, out["fresh_widths_all_zero"]))))
    cl.append(("done-property-agrees", out["prop_done"] == out["done"]))
    r = out["reset"]
    v3 = _draw(inp, r["draws"], n)
    cl.append(("reset-draws-new-game", r["draws"] == k + 1))
    cl.append(("reset-forgets-all-but-initial", r["known"] == [S in initial for S in range(2 ** n)]))
    cl.append(("reset-steps-zero", r["steps"] == 0))
    cl.append(("reset-values-from-new-game", lg.And(lg.eq(r["grand"], v3[2 ** n - 1]), lg.eq(r["info_game_grand"], v3[2 ** n - 1]))))
    cl.append(("reset-observation-zero", lg.And([lg.eq(x, zero) for x in r["obs"]])))
    cl.append(("reset-mask-all-open", r["mask"] == [True] * len(ex_ref)))
    # an episode can be over before the first step: zero budget, nothing explorable, or a hidden game whose bounds are already degenerate
    if params["budget"] == "none":
        cl.append(("reset-done-iff-nothing-to-do", r["done"] == (not ex_ref or r["fresh_widths_all_zero"]), "C09/done-after-reset"))
    else:
        cl.append(("reset-done-iff-budget-zero-or-nothing-to-do",
                   lg.Iff(r["done"], lg.Or(lg.ge(lg.const(0), inp.real("B")), not ex_ref, r["fresh_widths_all_zero"])), "C09/done-after-reset"))
    if "episode2" not in out:
        return cl
    e2 = out["episode2"]
    cl.append(("second-episode:reward-at-reset-is-of-the-new-game", lg.eq(e2["reward0"], zero - e2["fresh0"])))
    cl.append(("second-episode:reward-after-same-actions-is-of-the-new-game", lg.eq(e2["reward_after"], zero - e2["fresh_after"])))
    for S in range(2 ** n):
        if S in known:
            cl.append((f"second-episode:known-carry-new-hidden-values:S={S}", lg.And(e2["table_after"][S][0] is True, lg.eq(e2["table_after"][S][1], v3[S]),
                                                                                  lg.eq(e2["table_after"][S][2], v3[S]))))
    return cl


def canaries(params, inp, out, lg):
    # false on purpose: the reward would have to be strictly below -1 in every state
    return [("canary-reward-below-minus-one", lg.le(out["reward"], lg.const(-1)))]


def test_vectors(params):
    n = params["n"]
    rnd = random.Random(params["key"])
    vecs = []
    sam = COMPUTERS[params["computer"]] == "sam"
    for t in range(2):
        d = {}
        games = F.sam_test_games(n, 11 + t, 3) if sam else F.sa_test_games(n, 11 + t, 3)
        for k in (1, 2, 3):
            g = games[(k + t) % 3]
            for S in range(1, 2 ** n):
                d[f"d{k}v{S}"] = g[S]
        for S in range(2 ** n):
            d[f"staleL{S}"] = Fraction(rnd.randint(-40, 40), 4)
            d[f"staleU{S}"] = Fraction(rnd.randint(-40, 40), 4)
        d["B"] = Fraction(rnd.randint(0, 6))
        vecs.append(d)
    return vecs
