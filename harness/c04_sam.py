"""C04 — approximate superadditive-monotone bounds: sound, ordered, self-consistent."""
from __future__ import annotations

import os
from functools import partial

from . import families as F
from . import histories as H

ID = "C04"
HEAVY = False
LOGIC = "QF_LRA"
BUDGET_S = {"quick": 230, "thorough": 3300}
TIMEOUT_MS = {"quick": 30000, "thorough": 300000}
MAX_TASK_S = {"quick": 60, "thorough": 900}
ASSUMPTIONS = [
    "exact real arithmetic; hidden game superadditive AND monotone non-increasing (textbook constraints) — every generator family "
    "of that class is covered by the symbolic game (that the families are in the class is C10)",
    "repetition count r reached through functools.partial(..., repetitions=r) and, for r in {1,10,100,1000}, through the BOUNDS registry",
    "builtin min inside the computer replaced by its symbolic model (same value semantics)",
]
OUTSIDE = ["float rounding", "n>=6", "n=5 beyond the listed K and r<=1", "n=4 with r>=11 (plain unrolling does not scale; r=10 on listed K only)"]
STUBS = ["np proxy", "SymArray", "bounds.min/max symbolic"]


def bounds_text(tier):
    if tier == "quick":
        return "direct runs: n=3 all K x r in 0..10,100 (r=1000 on 4 K); n=4 all K x r=0, 256 K x r=1, 32 K x r=2; n=5 20 K x r=0; inductive step of the repetition loop (any r>=1): n=3 all K, n=4 256 K, n=5 10 K"
    return "direct runs: n=3 all K x r in 0..10,100,1000; n=4 all K x r in 0..3, 32 K x r=10; n=5 400 K x r in {0,1}, 12 K x r=2; inductive step: n=3,4 all K, n=5 600 K"


def tasks(tier, seed):
    out = []

    def add(n, K, r, nxt=True):
        out.append({"key": f"n{n}/r{r}/K={','.join(map(str, K))}" + ("" if nxt else "/nonext"), "n": n, "K": K, "r": r, "next": nxt})
    def addstep(n, K):
        out.append({"key": f"step/n{n}/K={','.join(map(str, K))}", "kind": "step", "n": n, "K": K, "r": 1})
    fam3, _ = F.family(3, tier, seed)
    fam4, _ = F.family(4, tier, seed)
    fam5, _ = F.family(5, tier, seed)
    add(3, [], 1)
    addstep(4, [3])
    add(4, [3], 0)
    # nine players (ids need more than one byte), minimal knowledge, structural clauses only (no class assumption: each of them holds
    # by construction of the bounds, for any values) on the coalitions that contain the ninth player
    # (minimal knowledge is not scheduled: the run takes 15 s, but each query over the nested 256-way max nodes costs z3 ~50 s.  With
    # almost everything known the bounds of the few unknown coalitions are flat max / min nodes over known values.)
    if os.environ.get("VERIF_N9") == "1":
        out.append({"key": "structural/n9/r1/K=", "n": 9, "K": [], "r": 1, "next": False, "structural": True})
    unknown9 = [257, 258, 259, 384, 448]           # {0,8}, {1,8}, {0,1,8}, {7,8}, {6,7,8}
    K9 = [S for S in F.extras(9) if S not in unknown9]
    for r in (0, 1):
        out.append({"key": f"structural/n9/r{r}/all-but-5-known", "n": 9, "K": K9, "r": r, "next": False, "structural": True})
    # seeded operation histories on one object before the computation under test (state kept outside the value table)
    for K in fam3:
        for r in (0, 1, 2):
            for j in range(2 if tier == "quick" else 5):
                out.append({"key": f"ops{j}/n3/r{r}/K={','.join(map(str, K))}", "n": 3, "K": K, "r": r, "next": False, "ops": f"ops{j}"})
    for K in F.sample([k for k in fam4 if len(k) < len(F.extras(4))], 32 if tier == "quick" else 200, seed, "c04ops"):
        for r in (0, 1):
            out.append({"key": f"ops0/n4/r{r}/K={','.join(map(str, K))}", "n": 4, "K": K, "r": r, "next": False, "ops": "ops0"})
    for K in fam3:
        for r in list(range(0, 11)) + [100, 1000]:
            if r == 1 and not K:
                continue
            if r == 1000 and tier == "quick" and len(K) not in (0, 2):
                continue
            add(3, K, r)
    if tier == "quick":
        for K in fam4:
            add(4, K, 0)
        for K in F.sample(fam4, 256, seed, "c04r1"):
            add(4, K, 1)
        for K in F.sample(fam4, 32, seed, "c04r2"):
            add(4, K, 2)
        for K in F.sample([k for k in fam5 if len(k) <= 20], 20, seed, "c04n5"):
            add(5, K, 0)
        for K in fam3:
            addstep(3, K)
        for K in F.sample(fam4, 256, seed, "c04s4"):
            addstep(4, K)
        for K in F.sample([k for k in fam5 if len(k) <= 22], 10, seed, "c04s5"):
            addstep(5, K)
    else:
        for r in (0, 1, 2, 3):
            for K in fam4:
                add(4, K, r)
        for K in F.sample(fam4, 32, seed, "c04r10"):
            add(4, K, 10)
        for K in F.sample(fam5, 400, seed, "c04n5"):
            add(5, K, 0)
            add(5, K, 1)
        for K in F.sample(fam5, 12, seed, "c04n5r2"):
            add(5, K, 2, nxt=False)
        for K in fam3:
            addstep(3, K)
        for K in fam4:
            addstep(4, K)
        for K in F.sample(fam5, 600, seed, "c04s5"):
            addstep(5, K)
    return out


def _v(params, inp):
    n = params["n"]
    return [inp.const(0)] + [inp.real(f"v{S}") for S in range(1, 2 ** n)]


def setup(params, inp, lg):
    n = params["n"]
    v = _v(params, inp)
    known = set(F.minimal(n)) | set(params["K"])
    for S in range(2 ** n):
        if S not in known:
            inp.real(f"staleL{S}")
            inp.real(f"staleU{S}")
    if params.get("kind") == "step":
        for S in range(2 ** n):
            if S not in known:
                inp.real(f"curL{S}")
    if params.get("ops"):
        for nm in H.stale_names(H.plan(n, params["K"], params["ops"])):
            inp.real(nm)
    if params.get("structural"):
        return []
    return F.sam_constraints(v, n, lg)


class _RangeStub:
    """Loop-schedule stub for the repetition loop of the SAM computer (module-global `range` of bounds.py).

    mode 'skip-first': range(k) -> [1..k-1]  (one or more iterations of the i>=1 kind from the state handed in)
    mode 'none'      : range(k) -> []        (only the upper-bound pass runs on the state handed in)
    Calls with other than one argument fall through to the builtin."""

    def __init__(self, mode):
        self.mode, self.calls = mode, []

    def __call__(self, *a):
        if len(a) != 1:
            return range(*a)
        self.calls.append(a[0])
        return range(1, a[0]) if self.mode == "skip-first" else range(0)


def _computer(pk, r):
    key = f"sam_apx_{r}"
    if key in pk.bounds.BOUNDS:
        return pk.bounds.BOUNDS[key]
    return partial(pk.bounds.compute_bounds_superadditive_monotone_approx_cached, repetitions=r)


def _run(pk, params, inp, v, comp, stale):
    n = params["n"]
    C = pk.coalitions.Coalition
    g = pk.game.IncompleteCooperativeGame(n, comp)
    known = sorted(set(F.minimal(n)) | set(params["K"]))
    if stale and params.get("ops"):
        g = H.apply(pk, g, v, H.plan(n, params["K"], params["ops"]), inp)
        stale = False
    else:
        g.set_known_values([v[S] for S in known], [C(S) for S in known])
    if stale:
        for S in range(2 ** n):
            if S not in set(known):
                g.set_lower_bound(inp.real(f"staleL{S}"), C(S))
                g.set_upper_bound(inp.real(f"staleU{S}"), C(S))
    g.compute_bounds()
    return {"L": [g.get_lower_bound(C(S)) for S in range(2 ** n)], "U": [g.get_upper_bound(C(S)) for S in range(2 ** n)],
            "known": [bool(g.is_value_known(C(S))) for S in range(2 ** n)]}


def _step_run(pk, params, inp, v, mode, L0):
    """Run the real SAM computer with the loop-schedule stub from the state L0 (unknown rows)."""
    n = params["n"]
    C = pk.coalitions.Coalition
    stub = _RangeStub(mode)
    comp = partial(pk.bounds.compute_bounds_superadditive_monotone_approx_cached, repetitions=1)
    g = pk.game.IncompleteCooperativeGame(n, comp)
    known = sorted(set(F.minimal(n)) | set(params["K"]))
    g.set_known_values([v[S] for S in known], [C(S) for S in known])
    for S in range(2 ** n):
        if S not in set(known):
            g.set_lower_bound(L0[S], C(S))
            g.set_upper_bound(inp.real(f"staleU{S}"), C(S))
    had = "range" in vars(pk.bounds)
    old = vars(pk.bounds).get("range")
    pk.bounds.range = stub
    try:
        g.compute_bounds()
    finally:
        if had:
            pk.bounds.range = old
        else:
            del pk.bounds.range
    if stub.calls != [2]:
        from symx.values import HarnessError
        raise HarnessError(f"loop-schedule stub not used as expected (calls {stub.calls}): the repetition loop changed shape; "
                           "the inductive-step obligation cannot be formed")
    return {"L": [g.get_lower_bound(C(S)) for S in range(2 ** n)], "U": [g.get_upper_bound(C(S)) for S in range(2 ** n)],
            "known": [bool(g.is_value_known(C(S))) for S in range(2 ** n)]}


def scenario(pk, params, inp):
    v = _v(params, inp)
    r = params["r"]
    if params.get("kind") == "step":
        n = params["n"]
        known = set(F.minimal(n)) | set(params["K"])
        L0 = [v[S] if S in known else inp.real(f"curL{S}") for S in range(2 ** n)]
        return {"cur": _step_run(pk, params, inp, v, "none", L0),          # upper pass on the current state
                "nxt": _step_run(pk, params, inp, v, "skip-first", L0),    # one more repetition, then upper pass
                "sa": _run(pk, params, inp, v, pk.bounds.BOUNDS["superadditive_cached"], False),
                "L0": L0}
    if params.get("structural"):
        return {"r": _run(pk, params, inp, v, _computer(pk, r), False)}
    out = {"r": _run(pk, params, inp, v, _computer(pk, r), True),
           "sa": _run(pk, params, inp, v, pk.bounds.BOUNDS["superadditive_cached"], False)}
    if r < 10 and params.get("next", True):
        out["r1"] = _run(pk, params, inp, v, _computer(pk, r + 1), False)
    return out


def _step_claims(params, inp, out, lg):
    """Inductive step for the repetition loop: from ANY state with SA-lower <= L <= v (what r=0 establishes, see the
    direct obligations), one more repetition keeps that invariant, never loosens a bound, leaves lower bounds
    monotone along inclusion and the upper pass satisfies every clause — hence all repetition counts."""
    n = params["n"]
    v = _v(params, inp)
    known = set(F.minimal(n)) | set(params["K"])
    L0, cur, nxt, SA = out["L0"], out["cur"], out["nxt"], out["sa"]
    inv = lg.And([lg.And(lg.le(L0[S], v[S]), lg.ge(L0[S], SA["L"][S])) for S in range(2 ** n) if S not in known])
    cl = []
    for S in range(2 ** n):
        if S in known:
            cl.append((f"step-known-exact:S={S}", lg.And(lg.eq(nxt["L"][S], v[S]), lg.eq(nxt["U"][S], v[S]))))
            continue
        cl.append((f"step-invariant-kept:S={S}", lg.Implies(inv, lg.And(lg.le(nxt["L"][S], v[S]), lg.ge(nxt["L"][S], SA["L"][S])))))
        cl.append((f"step-lower-never-loosens:S={S}", lg.Implies(inv, lg.ge(nxt["L"][S], L0[S]))))
        cl.append((f"step-upper-never-loosens:S={S}", lg.Implies(inv, lg.le(nxt["U"][S], cur["U"][S]))))
        for tag, R in (("cur", cur), ("nxt", nxt)):
            cl.append((f"step-upper-sound-{tag}:S={S}", lg.Implies(inv, lg.le(v[S], R["U"][S]))))
            cl.append((f"step-upper-not-looser-than-SA-{tag}:S={S}", lg.Implies(inv, lg.le(R["U"][S], SA["U"][S]))))
            for Q in sorted(known):
                if Q and Q != S and (Q & S) == Q:
                    cl.append((f"step-upper-below-known-sub-{tag}:S={S}:Q={Q}", lg.le(R["U"][S], v[Q])))
                if Q != S and (Q & S) == S:
                    cl.append((f"step-upper-below-superset-rule-{tag}:S={S}:T={Q}", lg.le(R["U"][S], v[Q] - R["L"][Q & ~S])))
    for T in range(1, 2 ** n):
        for i in range(n):
            if T >> i & 1:
                S = T & ~(1 << i)
                if S in known and T in known:
                    continue
                cl.append((f"step-lower-monotone:S={S}:T={T}", lg.Implies(inv, lg.ge(nxt["L"][S], nxt["L"][T]))))
    return cl


def claims(params, inp, out, lg):
    if params.get("kind") == "step":
        return _step_claims(params, inp, out, lg)
    n = params["n"]
    v = _v(params, inp)
    known = set(F.minimal(n)) | set(params["K"])
    if params.get("structural"):
        R = out["r"]
        top = 1 << (n - 1)
        cl = [("known-exact", lg.And([lg.And(lg.eq(R["L"][S], v[S]), lg.eq(R["U"][S], v[S]), R["known"][S] is True) for S in sorted(known)]))]
        pick = [S for S in range(2 ** n) if S not in known and (S & top) and F.popcount(S) <= 3] + [S for S in range(2 ** n) if S not in known][::37]
        for S in pick:
            for Q in sorted(known):
                if Q and Q != S and (Q & S) == Q:
                    cl.append((f"upper-below-known-subcoalition:S={S}:Q={Q}", lg.le(R["U"][S], v[Q])))
            if S & top and (S & ~top) not in known:
                # (against a KNOWN sub-coalition this clause needs the monotonicity of the game itself: not assumption-free)
                cl.append((f"lower-monotone:S={S & ~top}:T={S}", lg.ge(R["L"][S & ~top], R["L"][S])))
            cl.append((f"flag-unknown:S={S}", R["known"][S] is False))
        return cl
    R, SA = out["r"], out["sa"]
    cl = []
    for S in range(2 ** n):
        L, U = R["L"][S], R["U"][S]
        if S in known:
            cl.append((f"known-exact:S={S}", lg.And(lg.eq(L, v[S]), lg.eq(U, v[S]), R["known"][S] is True)))
            continue
        cl.append((f"sound:S={S}", lg.And(lg.le(L, v[S]), lg.le(v[S], U))))
        cl.append((f"not-looser-than-SA:S={S}", lg.And(lg.ge(L, SA["L"][S]), lg.le(U, SA["U"][S]))))
        if "r1" in out:
            cl.append((f"more-repetitions-never-loosen:S={S}", lg.And(lg.ge(out["r1"]["L"][S], L), lg.le(out["r1"]["U"][S], U))))
        for Q in sorted(known):
            if Q and Q != S and (Q & S) == Q:
                cl.append((f"upper-below-known-subcoalition:S={S}:Q={Q}", lg.le(U, v[Q])))
            if Q != S and (Q & S) == S:
                cl.append((f"upper-below-superset-rule:S={S}:T={Q}", lg.le(U, v[Q] - R["L"][Q & ~S])))
    # lower bounds monotone non-increasing along inclusion (cover relations)
    for T in range(1, 2 ** n):
        for i in range(n):
            if T >> i & 1:
                S = T & ~(1 << i)
                if S in known and T in known:
                    continue
                cl.append((f"lower-monotone:S={S}:T={T}", lg.ge(R["L"][S], R["L"][T])))
    return cl


def canaries(params, inp, out, lg):
    n = params["n"]
    if params.get("kind") == "step":
        known = set(F.minimal(n)) | set(params["K"])
        unk = [S for S in range(2 ** n) if S not in known]
        if not unk:
            return []
        # false on purpose: without the invariant the step does not keep soundness
        return [(f"canary-step-sound-without-invariant:S={unk[0]}", lg.le(out["nxt"]["L"][unk[0]], _v(params, inp)[unk[0]]))]
    known = set(F.minimal(n)) | set(params["K"])
    unk = [S for S in range(2 ** n) if S not in known]
    if not unk or params.get("structural"):
        return []
    S = unk[-1]
    # false on purpose: the SAM bounds would have to coincide with the plain superadditive ones
    return [(f"canary-equals-SA:S={S}", lg.And(lg.eq(out["r"]["L"][S], out["sa"]["L"][S]), lg.eq(out["r"]["U"][S], out["sa"]["U"][S])))]


def test_vectors(params):
    import random
    from fractions import Fraction
    n = params["n"]
    rnd = random.Random(params["key"])
    vecs = []
    for g in F.sam_test_games(n, 9, 3):
        d = {f"v{S}": g[S] for S in range(1, 2 ** n)}
        for S in range(2 ** n):
            d[f"curL{S}"] = g[S] - Fraction(rnd.randint(0, 2), 4)
            d[f"staleL{S}"] = Fraction(rnd.randint(-40, 40), 4)
            d[f"staleU{S}"] = Fraction(rnd.randint(-40, 40), 4)
        for k in range(12):
            d[f"hs{k}L"] = Fraction(rnd.randint(-40, 40), 4)
            d[f"hs{k}U"] = Fraction(rnd.randint(-40, 40), 4)
        vecs.append(d)
    return vecs
