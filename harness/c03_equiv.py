"""C03 — cached and reference superadditive computers are interchangeable (incl. interleaved sizes)."""
from __future__ import annotations

import random
from fractions import Fraction

from . import families as F
from . import histories as H

ID = "C03"
HEAVY = False
LOGIC = "QF_LRA"
BUDGET_S = {"quick": 200, "thorough": 3000}
TIMEOUT_MS = {"quick": 20000, "thorough": 300000}
ASSUMPTIONS = [
    "exact real arithmetic: equality of the two computers' result terms over all real inputs (implies bit-identity whenever all sums are exact)",
    "NO class assumption on the game values; the two game objects start from independent arbitrary stale states",
    "call sequences mix player counts and game objects in one interpreter; pool workers are long-lived, so the memoised "
    "coalition structure is also shared across tasks in arbitrary order",
]
OUTSIDE = ["float-rounding equality on non-exact inputs", "knowledge sets not listed for n>=5", "n>=9",
           "ModelInstance registry path (exercised in C09/C12)"]
STUBS = ["np proxy", "SymArray reductions"]


def bounds_text(tier):
    if tier == "quick":
        return "single calls: n=2,3,4 all K, n=5 48 K; cross-size sequences sharing the same known ids / the same unknown ids between n in {3,4,5}; 40 seeded interleaved sequences of 3-6 calls; every task starts from a pristine interpreter state (forked)"
    return "single calls: n=2..4 all K, n=5 F5, n=6 32 K, n=7 8 K, n=8 3 K; 300 seeded interleaved sequences"


def _seq_task(steps, tag):
    return {"key": f"seq/{tag}/" + ";".join(f"n{n}:{','.join(map(str, K))}" for n, K in steps), "steps": [[n, K] for n, K in steps]}


def tasks(tier, seed):
    out = []
    out.append(_seq_task([(3, [])], "single"))
    out.append(_seq_task([(3, []), (4, [3]), (3, []), (5, [7, 24]), (4, [3])], "mix"))
    out.append(_seq_task([(2, [])], "single"))
    for n in (3, 4):
        fam, _ = F.family(n, tier, seed)
        for K in fam:
            if n == 3 and not K:
                continue
            out.append(_seq_task([(n, K)], "single"))
    fam5, _ = F.family(5, tier, seed)
    for K in (fam5 if tier == "thorough" else F.sample(fam5, 48, seed, "c03q5")):
        out.append(_seq_task([(5, K)], "single"))
    if tier == "thorough":
        fam6, _ = F.family(6, tier, seed)
        for K in fam6[:32]:
            out.append(_seq_task([(6, K)], "single"))
        fam7, _ = F.family(7, tier, seed)
        for K in fam7[:8]:
            out.append(_seq_task([(7, K)], "single"))
        fam8, _ = F.family(8, tier, seed)
        for K in fam8[:3]:
            out.append(_seq_task([(8, K)], "single"))
    # systematic cross-size interleavings: the same known-extras ids, and the same UNKNOWN ids, at two player counts
    rndx = random.Random(f"c03x/{seed}")
    for n1, n2 in [(3, 4), (4, 3), (3, 5), (5, 3), (4, 5), (5, 4)]:
        lo = min(n1, n2)
        ex_lo = F.extras(lo)
        if lo == 3:
            subsets = [list(c) for r in range(4) for c in __import__("itertools").combinations(ex_lo, r)]
        else:
            subsets = [[]] + [sorted(rndx.sample(ex_lo, rndx.randint(1, len(ex_lo) - 1)))
                              for _ in range(24 if tier == "thorough" else 6)]
        for X in subsets:
            # (a) same known extras
            out.append(_seq_task([(n1, X), (n2, X), (n1, X)], f"x-known-{n1}-{n2}"))
            # (b) same unknown ids (everything else known)
            if X:
                K1 = [S for S in F.extras(n1) if S not in X]
                K2 = [S for S in F.extras(n2) if S not in X]
                out.append(_seq_task([(n1, K1), (n2, K2), (n1, K1)], f"x-unknown-{n1}-{n2}"))
    # larger player counts with almost everything known (more than 64 known coalitions; ids beyond one byte): the few unknown coalitions
    # have flat max / min bounds over known values, so the run is cheap whatever n is
    for n, unk in ((7, [3, 5, 24, 67, 96, 7, 56]), (8, [3, 129, 130, 192, 7, 224])) + (((9, [257, 258, 259, 384, 448, 3, 5]),) if tier == "thorough" else ()):
        out.append(_seq_task([(n, [S for S in F.extras(n) if S not in unk])], f"almost-all-known-n{n}"))
    # seeded operation histories on one object per computer (state kept outside the value table, see harness/histories.py)
    for n in (3, 4, 5):
        fam, _ = F.family(n, tier, seed)
        pool = fam if n == 3 else F.sample([k for k in fam if len(k) < len(F.extras(n))], {4: 48, 5: 8}[n] if tier == "quick" else {4: 256, 5: 48}[n], seed, "c03ops")
        for K in pool:
            for j in range((3 if n == 3 else 1) if tier == "quick" else (6 if n == 3 else 2)):
                out.append({"key": f"ops{j}/n{n}/K={','.join(map(str, K))}", "ops": f"ops{j}", "steps": [[n, K]]})
    # interleavings
    rnd = random.Random(f"c03/{seed}")
    pools = {n: F.family(n, tier, seed)[0] for n in (3, 4, 5)}
    pools[2] = [[]]
    for i in range(300 if tier == "thorough" else 40):
        ln = rnd.randint(3, 5)
        steps = []
        for _ in range(ln):
            n = rnd.choice([2, 3, 3, 4, 4, 5])
            steps.append((n, rnd.choice(pools[n])))
        if rnd.random() < 0.5:
            steps.append(steps[0])       # same skeleton again later: must reproduce the earlier result
        out.append(_seq_task(steps, f"mix{i}"))
    return out


def _vals(inp, i, n):
    return [inp.const(0)] + [inp.real(f"s{i}v{S}") for S in range(1, 2 ** n)]


def setup(params, inp, lg):
    if params.get("ops"):
        n, K = params["steps"][0]
        for who in ("c", "r"):
            for nm in H.stale_names(H.plan(n, K, params["ops"]), prefix=f"h{who}"):
                inp.real(nm)
    for i, (n, K) in enumerate(params["steps"]):
        _vals(inp, i, n)
        known = set(F.minimal(n)) | set(K)
        for S in range(2 ** n):
            if S not in known:
                for who in ("c", "r"):
                    inp.real(f"s{i}{who}L{S}")
                    inp.real(f"s{i}{who}U{S}")
    return []


def scenario(pk, params, inp):
    C = pk.coalitions.Coalition
    out = []
    for i, (n, K) in enumerate(params["steps"]):
        v = _vals(inp, i, n)
        known = sorted(set(F.minimal(n)) | set(K))
        res = {}
        for who, name in (("c", "superadditive_cached"), ("r", "superadditive")):
            g = pk.game.IncompleteCooperativeGame(n, pk.bounds.BOUNDS[name])
            if params.get("ops"):
                g = H.apply(pk, g, v, H.plan(n, K, params["ops"]), inp, prefix=f"h{who}")
            else:
                g.set_known_values([v[S] for S in known], [C(S) for S in known])
                for S in range(2 ** n):
                    if S not in set(known):
                        g.set_lower_bound(inp.real(f"s{i}{who}L{S}"), C(S))
                        g.set_upper_bound(inp.real(f"s{i}{who}U{S}"), C(S))
            g.compute_bounds()
            if who == "c" and i % 2 == 1:
                g.compute_bounds()       # repeated invocation on one game object
            res[who] = {"L": [g.get_lower_bound(C(S)) for S in range(2 ** n)],
                        "U": [g.get_upper_bound(C(S)) for S in range(2 ** n)],
                        "known": [bool(g.is_value_known(C(S))) for S in range(2 ** n)]}
        out.append(res)
    return {"steps": out}


def claims(params, inp, out, lg):
    cl = []
    for i, (n, K) in enumerate(params["steps"]):
        c, r = out["steps"][i]["c"], out["steps"][i]["r"]
        for S in range(2 ** n):
            cl.append((f"equal:step={i}:S={S}", lg.And(lg.eq(c["L"][S], r["L"][S]), lg.eq(c["U"][S], r["U"][S]),
                                                     c["known"][S] == r["known"][S])))
    return cl


def canaries(params, inp, out, lg):
    n, K = params["steps"][0]
    known = set(F.minimal(n)) | set(K)
    unk = [S for S in range(2 ** n) if S not in known]
    if not unk:
        return []
    S = unk[0]
    c = out["steps"][0]["c"]
    # false on purpose: the result would have to coincide with the stale value the other object started from
    return [(f"canary-equals-stale:S={S}", lg.eq(c["L"][S], inp.real(f"s0rL{S}")))]


def test_vectors(params):
    rnd = random.Random(params["key"])
    vecs = []
    for t in range(2):
        d = {}
        for i, (n, K) in enumerate(params["steps"]):
            g = F.sa_test_games(n, 7 + t, 3)[-1 if t == 0 else 0]
            for S in range(1, 2 ** n):
                d[f"s{i}v{S}"] = g[S] if t == 0 else Fraction(rnd.randint(-20, 20), 2)
                for who in ("c", "r"):
                    d[f"s{i}{who}L{S}"] = Fraction(rnd.randint(-40, 40), 4)
                    d[f"s{i}{who}U{S}"] = Fraction(rnd.randint(-40, 40), 4)
        for who in ("c", "r"):
            for k in range(12):
                d[f"h{who}{k}L"] = Fraction(rnd.randint(-40, 40), 4)
                d[f"h{who}{k}U"] = Fraction(rnd.randint(-40, 40), 4)
        vecs.append(d)
    return vecs
