"""Shared plumbing of the per-property harnesses.

A harness module defines (all JSON-able where they cross process boundaries):

    ID, TITLE, HEAVY (needs run.model etc.), FUNCTIONS (doc), STUBS, ASSUMPTIONS, OUTSIDE
    tasks(tier, seed)                 -> list of params dicts (each must have a "key")
    setup(params, inp, lg)            -> list of class assumptions over declared inputs
    scenario(pk, params, inp)         -> outputs (dict name -> value / list / bool)
    claims(params, inp, out, lg)      -> list of (name, formula[, signature])
    canaries(params, inp, out, lg)    -> list of (name, false formula)            [optional]
    test_vectors(params)              -> list of {input name: Fraction}           [optional]

`scenario` and `claims` are written once and run in two worlds: symbolically (inputs are
z3 terms, the package is patched, formulas are z3 Bools decided by the solver) and
concretely (inputs are float64, the package is unpatched, formulas are Python bools with a
float tolerance).  The concrete world is used to replay counterexamples and to validate
the encoding (cross-check).
"""
from __future__ import annotations

import hashlib
import importlib
import json
import os
import subprocess
import sys
import time
import traceback
from fractions import Fraction

import numpy as np

VERIF = os.path.dirname(os.path.dirname(os.path.abspath(__file__)))
EXIT_OK, EXIT_VIOLATION, EXIT_HARNESS = 0, 1, 2
SLACK = Fraction(1, 1000)
SLACK_LADDER = [Fraction(1, 1000), Fraction(1, 100000), Fraction(2, 10000000)]
CONC_TOL = 1e-9


# =============================================================== two logics
class SymLogic:
    mode = "sym"

    def __init__(self, slack=0):
        self.slack = Fraction(slack)

    def _r(self, x):
        from symx.values import sreal
        return sreal(x)

    def _b(self, x):
        from symx.values import bterm
        return bterm(x)

    def le(self, a, b):
        return self._b(self._r(a) <= self._r(b) + self.slack)

    def ge(self, a, b):
        return self.le(b, a)

    def lt(self, a, b):
        if self.slack:
            return self.le(a, b)
        return self._b(self._r(a) < self._r(b))

    def gt(self, a, b):
        return self.lt(b, a)

    def eq(self, a, b):
        import z3
        from symx.values import _same_term
        if a is None or b is None:
            return z3.BoolVal(a is None and b is None)
        ra, rb = self._r(a), self._r(b)
        if _same_term(ra, rb):
            return z3.BoolVal(True)
        if self.slack:
            return z3.And(self.le(a, b), self.le(b, a))
        return self._b(ra == rb)

    def close(self, a, b, rel):
        """|a-b| <= rel*(1+|b|) — used where the implementation itself computes with float constants."""
        a, b = self._r(a), self._r(b)
        return self._b(abs(a - b) <= (Fraction(rel) * (1 + abs(b))) + self.slack)

    def And(self, *xs):
        import z3
        xs = [self._b(x) for x in _flat(xs)]
        if any(z3.is_false(x) for x in xs):
            return z3.BoolVal(False)
        xs = [x for x in xs if not z3.is_true(x)]
        if len(xs) == 1:
            return xs[0]
        return z3.And(*xs) if xs else z3.BoolVal(True)

    def Or(self, *xs):
        import z3
        xs = [self._b(x) for x in _flat(xs)]
        if any(z3.is_true(x) for x in xs):
            return z3.BoolVal(True)
        xs = [x for x in xs if not z3.is_false(x)]
        if len(xs) == 1:
            return xs[0]
        return z3.Or(*xs) if xs else z3.BoolVal(False)

    def Not(self, x):
        import z3
        return z3.Not(self._b(x))

    def Implies(self, a, b):
        import z3
        return z3.Implies(self._b(a), self._b(b))

    def Iff(self, a, b):
        return self._b(a) == self._b(b)

    def truth(self, x):
        return self._b(x)

    def const(self, x):
        return self._r(x)


class ConcLogic:
    mode = "conc"

    def __init__(self, tol=CONC_TOL, lenient=False):
        self.tol = tol
        # lenient: strict comparisons get the benefit of the doubt as well.  Used when a claim is evaluated on a test vector that did
        # NOT come from the solver (concrete fallback): such vectors may sit on an exact tie of the real-valued semantics, where float
        # rounding decides the code's choice either way; only a violation beyond rounding counts there
        self.lenient = lenient

    def _t(self, a, b):
        return self.tol * (1.0 + abs(float(a)) + abs(float(b)))

    def le(self, a, b):
        return bool(float(a) <= float(b) + self._t(a, b))

    def ge(self, a, b):
        return self.le(b, a)

    def lt(self, a, b):
        # strict claims are only replayed after the solver produced an exact-arithmetic counterexample (a >= b);
        # a float run that lands within rounding of equality must count as reproducing it, so strictness needs a margin
        if self.lenient:
            return bool(float(a) < float(b) + self._t(a, b))
        return bool(float(a) < float(b) - self._t(a, b))

    def gt(self, a, b):
        return self.lt(b, a)

    def eq(self, a, b):
        if a is None or b is None:
            return a is None and b is None
        return bool(abs(float(a) - float(b)) <= self._t(a, b))

    def close(self, a, b, rel):
        return bool(abs(float(a) - float(b)) <= rel * (1 + abs(float(b))) + self._t(a, b))

    def And(self, *xs):
        return all(bool(x) for x in _flat(xs))

    def Or(self, *xs):
        return any(bool(x) for x in _flat(xs))

    def Not(self, x):
        return not bool(x)

    def Implies(self, a, b):
        return (not bool(a)) or bool(b)

    def Iff(self, a, b):
        return bool(a) == bool(b)

    def truth(self, x):
        return bool(x)

    def const(self, x):
        return float(x)


def _flat(xs):
    for x in xs:
        if isinstance(x, (list, tuple)):
            yield from _flat(x)
        else:
            yield x


# =============================================================== inputs in two worlds
class SymInputs:
    mode = "sym"

    def __init__(self, eng):
        self.eng = eng
        self._eq = {}

    def real(self, name):
        return self.eng.real(name)

    def const(self, x):
        from symx.values import sreal
        return sreal(x)

    def bv(self, name, width=16):
        return self.eng.bitvec(name, width)

    def f64(self, name):
        return self.eng.f64(name)

    def int_is(self, name, k):
        """Is the symbolic integer input `name` equal to k?  (forks; used for crash indices)"""
        key = (name, int(k))
        t = self._eq.get(key)
        if t is None:
            t = self._eq[key] = (self.eng.integer(name) == int(k))
        return self.eng.branch(t)

    def choose(self, n, label="choice"):
        return self.eng.choose(n, label)

    def assume(self, cond):
        self.eng.assume(cond)


class ConcInputs:
    mode = "conc"

    def __init__(self, values):
        self.values = {k: v for k, v in values.items() if k != "__choices__"}
        self.choices = list(values.get("__choices__", []))
        self._ci = 0
        self.assumption_failed = False

    def real(self, name):
        v = self.values.get(name, 0)
        return np.float64(float(Fraction(v)) if isinstance(v, str) else float(v))

    def const(self, x):
        return np.float64(float(x))

    def bv(self, name, width=16):
        v = self.values.get(name, 0)
        return int(Fraction(v)) if isinstance(v, str) else int(v)

    def f64(self, name):
        v = self.values.get(name, 0)
        if isinstance(v, str) and "0x" in v:
            return np.float64(float.fromhex(v))
        return np.float64(float(Fraction(v)) if isinstance(v, str) else float(v))

    def int_is(self, name, k):
        v = self.values.get(name, -1)
        return (int(Fraction(v)) if isinstance(v, str) else int(v)) == int(k)

    def choose(self, n, label="choice"):
        if self._ci < len(self.choices):
            k = self.choices[self._ci]
        else:
            k = 0
        self._ci += 1
        return min(int(k), n - 1)

    def assume(self, cond):
        if not bool(cond):
            self.assumption_failed = True


# =============================================================== flattening of outputs
def flatten(out, prefix=""):
    """dict / list structure -> {path: leaf}."""
    res = {}
    if isinstance(out, dict):
        for k, v in out.items():
            res.update(flatten(v, f"{prefix}{k}."))
    elif isinstance(out, (list, tuple)) or (isinstance(out, np.ndarray) and out.ndim > 0):
        for i, v in enumerate(list(out)):
            res.update(flatten(v, f"{prefix}{i}."))
    else:
        res[prefix[:-1]] = out
    return res


def leaf_to_json(v):
    if v is None:
        return None
    if isinstance(v, (bool, np.bool_)):
        return bool(v)
    if isinstance(v, (int, np.integer)):
        return int(v)
    if isinstance(v, (float, np.floating)):
        f = float(v)
        return None if f != f else f
    if isinstance(v, str):
        return v
    if isinstance(v, np.ndarray) and v.shape == ():
        return leaf_to_json(v.item())
    raise TypeError(f"cannot serialise leaf {type(v)}")


def eval_leaf(v, subst):
    """Evaluate a symbolic leaf under a substitution list [(z3 var, z3 value)]."""
    import z3
    from symx.values import SymBool, SymBV, SymF64, SymReal
    if isinstance(v, SymF64):
        import struct
        t = z3.simplify(z3.fpToIEEEBV(z3.substitute(v.t, *subst)))
        if z3.is_bv_value(t):
            f = struct.unpack(">d", t.as_long().to_bytes(8, "big"))[0]
            return None if f != f else f
        return "?"
    if isinstance(v, SymBV):
        t = z3.simplify(z3.substitute(v.t, *subst))
        return t.as_long() if z3.is_bv_value(t) else "?"
    if isinstance(v, SymReal):
        if v.c is not None:
            return float(v.c)
        t = z3.simplify(z3.substitute(v.t, *subst))
        if z3.is_rational_value(t):
            return float(t.as_fraction())
        if z3.is_algebraic_value(t):
            return float(t.approx(20).as_fraction())
        return "?"        # depends on an uninterpreted function / division by zero
    if isinstance(v, SymBool):
        t = z3.simplify(z3.substitute(v.t, *subst))
        if z3.is_true(t):
            return True
        if z3.is_false(t):
            return False
        return "?"
    return leaf_to_json(v)


# =============================================================== known findings
def load_known_findings():
    path = os.path.join(VERIF, "known_findings.txt")
    findings, fixed = [], []
    if os.path.exists(path):
        for line in open(path):
            line = line.strip()
            if not line or line.startswith("#"):
                continue
            kind, _, rest = line.partition(":")
            fields = dict(tok.split("=", 1) for tok in rest.split() if "=" in tok and tok.split("=", 1)[0] in ("property", "signature", "commit"))
            words = [w for w in rest.split() if not (w.startswith("property=") or w.startswith("signature=") or w.startswith("commit="))]
            entry = {"property": fields.get("property"), "signature": fields.get("signature"),
                     "text": f"signature={fields.get('signature')} " + " ".join(words)}
            (findings if kind.strip() == "finding" else fixed).append(entry)
    return findings, fixed


# =============================================================== worker side (symbolic)
_PK = None
_PROFILE_FUNCS = set()


def _worker_init(heavy, repo):
    global _PK
    sys.setrecursionlimit(100000)
    os.environ["VERIF_REPO"] = repo
    from symx import bootstrap
    _PK = bootstrap.load(symbolic=True, heavy=heavy, repo=repo)


def _profiler(repo_prefix):
    def prof(frame, event, arg):
        if event == "call":
            fn = frame.f_code.co_filename
            if fn.startswith(repo_prefix):
                mod = fn[len(repo_prefix):].lstrip("/").replace("/", ".")
                if mod.endswith(".py"):
                    mod = mod[:-3]
                _PROFILE_FUNCS.add(f"{mod}:{frame.f_code.co_qualname}")
    return prof


def make_state_reset(pk):
    """Re-execution explores one path per run of the scenario inside ONE process; the package's module-level mutable
    state (caches, counters, registries) must therefore be put back before every path, or a history-dependent
    behaviour would only ever be seen on the first path.  Snapshot now, restore on demand."""
    import types
    snap = []
    for mod in vars(pk).values():
        if not isinstance(mod, types.ModuleType):
            continue
        for name, val in list(vars(mod).items()):
            if name.startswith("__") or name == "np":
                continue
            if isinstance(val, (int, float, str, bool, tuple, type(None), frozenset)):
                snap.append(("scalar", mod, name, val))
            elif isinstance(val, (list, dict, set)):
                snap.append(("container", mod, name, (val, type(val)(val))))
            elif callable(val) and hasattr(val, "cache_clear"):
                snap.append(("cache", mod, name, val))

    def reset():
        for kind, mod, name, val in snap:
            if kind == "scalar":
                if vars(mod).get(name, None) is not val:
                    setattr(mod, name, val)
            elif kind == "container":
                obj, saved = val
                cur = vars(mod).get(name)
                if cur is not obj:
                    setattr(mod, name, obj)
                if isinstance(obj, list):
                    obj[:] = saved
                else:
                    obj.clear()
                    obj.update(saved)
            else:
                val.cache_clear()
    return reset


def run_task_symbolic(args):
    """Runs in a pool worker. Returns a JSON-able dict."""
    modname, params, opts = args
    t0 = time.time()
    try:
        return _run_task_symbolic(modname, params, opts, t0)
    except BaseException as e:  # noqa: BLE001 - report, never lose a task silently
        return {"key": params.get("key"), "params": params, "harness_error": f"{type(e).__name__}: {e}",
                "traceback": traceback.format_exc()[-3000:], "wall_s": time.time() - t0}


def _run_task_symbolic(modname, params, opts, t0):
    import z3
    from symx.engine import Engine
    mod = importlib.import_module(modname)
    # a task may carry its own solver / time limits (large single runs: many small queries, none of which should starve the others)
    eng = Engine(timeout_ms=params.get("timeout_ms", opts.get("timeout_ms", 10000)), max_depth=opts.get("max_depth", 400),
                 max_paths=opts.get("max_paths", 20000), nonlinear=getattr(mod, "NONLINEAR", "nra"),
                 max_task_s=params.get("max_task_s", opts.get("max_task_s")),
                 logic=getattr(mod, "LOGIC", None))
    if opts.get("dump_dir"):
        eng.dump_dir, eng.dump_limit = opts["dump_dir"], opts.get("dump_limit", 4)
    inp = SymInputs(eng)
    lg, lgs = SymLogic(0), SymLogic(SLACK)
    from symx import engine as _e
    prev = _e._CUR
    _e._CUR = eng
    try:
        assumptions = list(mod.setup(params, inp, lg))
    finally:
        _e._CUR = prev
    eng.assume_global(*[lg.truth(a) for a in assumptions])
    r, wit = eng.witness()
    res = {"key": params["key"], "params": params, "vacuous": r != "sat", "obligations": 0, "discharged": 0,
           "unknown": 0, "violations": [], "canary": [], "nontrivial": 0, "xcheck": [], "samples": []}
    if r != "sat":
        res["wall_s"] = time.time() - t0
        res["stats"] = eng.stats
        return res
    do_canary = opts.get("canary", False)
    do_profile = opts.get("profile", False)
    canary_names = set()
    trivial = [0]
    sample_smt = []

    def body():
        out = mod.scenario(_PK, params, inp)
        cl = mod.claims(params, inp, out, lg)
        slack_cache = {}

        def slack_of(index, kind="claims"):
            # margin versions of the claims are only built when a claim is violated (levels: 1e-3, 1e-5, 2e-7)
            def at(level):
                key = (kind, level)
                if key not in slack_cache:
                    fn = mod.claims if kind == "claims" else mod.canaries
                    slack_cache[key] = fn(params, inp, out, SymLogic(SLACK_LADDER[level]))
                lst = slack_cache[key]
                return lst[index][1] if index < len(lst) else None
            return at
        for ci, c in enumerate(cl):
            cs = (None, slack_of(ci))
            name, f = c[0], c[1]
            sig = c[2] if len(c) > 2 else None
            if z3.is_true(lg.truth(f)):
                trivial[0] += 1
            if len(sample_smt) < 2 and not z3.is_true(lg.truth(f)):
                sample_smt.append({"claim": name, "negated_smt2": _short(z3.Not(lg.truth(f)).sexpr())})
            ext = c[3] if len(c) > 3 else None
            if ext and ext.get("external"):
                eng.prove_external(name, f, timeout_s=ext.get("timeout_s", 150), info={"sig": sig}, binary=ext["external"])
            else:
                eng.prove(name, f, slack_claim=cs[1], bound=1000, info={"sig": sig})
        if do_canary and hasattr(mod, "canaries"):
            for ci, c in enumerate(mod.canaries(params, inp, out, lg)):
                canary_names.add(c[0])
                eng.prove(c[0], c[1], slack_claim=slack_of(ci, "canaries"), bound=1000, info={"canary": True})
        return out

    if do_profile:
        sys.setprofile(_profiler(os.path.realpath(_PK.repo)))
    guides = []
    if getattr(mod, "GUIDED", False) and hasattr(mod, "test_vectors") and (not hasattr(mod, "guided_for") or mod.guided_for(params)):
        try:
            guides = [dict(v) for v in mod.test_vectors(params)][: getattr(mod, "GUIDED_N", 3)]
        except Exception:  # noqa: BLE001
            guides = []
    try:
        paths = eng.run(body, exception_is_result=True, before_path=make_state_reset(_PK), guides=guides)
    finally:
        if do_profile:
            sys.setprofile(None)
    exc_ok = set(getattr(mod, "EXPECTED_EXCEPTIONS", ()))
    for ob in eng.obligations:
        if ob.name in canary_names:
            res["canary"].append({"name": ob.name, "status": ob.status, "model": _ser_model(ob.model), "path": ob.path})
            continue
        if ob.status == "exception" and ob.info["type"] in exc_ok:
            continue
        res["obligations"] += 1
        if ob.status == "proved":
            res["discharged"] += 1
        elif ob.status == "unknown":
            res["unknown"] += 1
        else:
            res["violations"].append({"name": ob.name, "status": ob.status, "path": ob.path, "info": ob.info,
                                      "model": _ser_model(ob.model), "slack_model": ob.slack_model})
    res["nontrivial"] = res["obligations"] - trivial[0]
    res["stats"] = eng.stats
    res["slow_obligations"] = [(round(t, 2), nm) for t, nm in sorted(eng.ob_times, reverse=True)[:4]]
    res["paths"] = len(paths)
    res["samples"] = sample_smt
    # ---- cross-check material: predicted outputs under concrete valuations
    if opts.get("xcheck", False) and paths:
        vecs = []
        if hasattr(mod, "test_vectors"):
            vecs += [dict(v) for v in mod.test_vectors(params)]
        if wit is not None:
            vecs.append(wit)
        for vec in vecs[: opts.get("xcheck_n", 3)]:
            pred = _predict(eng, paths, vec, assumptions, lg)
            if pred is not None:
                res["xcheck"].append({"values": _ser_model(vec), "predicted": pred})
    if do_profile:
        res["functions"] = sorted(_PROFILE_FUNCS)
    res["wall_s"] = time.time() - t0
    return res


def _short(s, n=1500):
    return s if len(s) <= n else s[:n] + f"... [{len(s)} chars]"


def _ser_model(m):
    if m is None:
        return None
    out = {}
    for k, v in m.items():
        if k == "__choices__":
            out[k] = list(v)
        elif isinstance(v, bool):
            out[k] = v
        else:
            out[k] = str(v)
    return out


def _predict(eng, paths, vec, assumptions, lg):
    """Find the path taken under the valuation and evaluate its outputs."""
    import z3
    subst = []
    for name, var in eng.inputs.items():
        if z3.is_real(var):
            f = Fraction(vec.get(name, 0)) if not isinstance(vec.get(name, 0), Fraction) else vec[name]
            subst.append((var, z3.RealVal(f.numerator) if f.denominator == 1 else z3.Q(f.numerator, f.denominator)))
        elif z3.is_bv(var):
            subst.append((var, z3.BitVecVal(int(Fraction(vec.get(name, 0))), var.size())))
        elif z3.is_int(var):
            subst.append((var, z3.IntVal(int(Fraction(vec.get(name, -1))))))
        elif z3.is_fp(var):
            x = vec.get(name, 0)
            subst.append((var, z3.FPVal(float.fromhex(x) if isinstance(x, str) and "0x" in x else float(Fraction(x)), z3.Float64())))
    for a in assumptions:
        t = z3.simplify(z3.substitute(lg.truth(a), *subst))
        if not z3.is_true(t):
            return None       # vector outside the assumed class
    for p in paths:
        if p.exception is not None:
            continue
        ok = True
        for lit in p.pc:
            t = z3.simplify(z3.substitute(lit, *subst))
            if not z3.is_true(t):
                ok = False
                break
        if ok:
            flat = flatten(p.value)
            return {"choices": p.choices, "outputs": {k: eval_leaf(v, subst) for k, v in flat.items()}}
    return None


# =============================================================== concrete side (unpatched package)
def concrete_main():
    """`python -m harness.common concrete`: reads jobs (JSON lines) on stdin, answers on stdout."""
    from symx import bootstrap
    heavy = os.environ.get("VERIF_HEAVY", "0") == "1"
    pk = bootstrap.load(symbolic=False, heavy=heavy)
    for line in sys.stdin:
        line = line.strip()
        if not line:
            continue
        job = json.loads(line)
        # every job runs in a child forked from the pristine unpatched package: module-level state never leaks between jobs
        sys.stdout.flush()
        pid = os.fork()
        if pid == 0:
            try:
                # a concrete job is one scenario run: bound it (a constant choice sequence can drive a rejection-sampling loop forever)
                import resource
                import signal
                lim = int(job.get("limit_s", 900))
                signal.signal(signal.SIGALRM, lambda *_a: (_ for _ in ()).throw(_JobAbort(f"concrete job exceeded {lim}s")))
                signal.alarm(lim)
                try:
                    resource.setrlimit(resource.RLIMIT_AS, (40 * 2 ** 30, 40 * 2 ** 30))
                except (ValueError, OSError):
                    pass
                out = json.dumps(concrete_job(pk, job))
            except BaseException as e:  # noqa: BLE001
                out = json.dumps({"exception": "HarnessError", "message": repr(e)[:300], "outputs": None, "failed": [], "assumptions_ok": True})
            sys.stdout.write(out + "\n")
            sys.stdout.flush()
            os._exit(0)
        os.waitpid(pid, 0)


class _JobAbort(BaseException):
    """Resource limit of a concrete job hit: a harness condition, never a behaviour of the code under analysis."""


def concrete_job(pk, job):
    mod = importlib.import_module(job["module"])
    params, values = job["params"], job["values"]
    inp = ConcInputs(values)
    lg = ConcLogic(getattr(mod, "CONC_TOL", CONC_TOL), lenient=bool(job.get("lenient")))     # a module may demand exactness (C19: bit-exact round trip)
    ans = {"exception": None, "outputs": None, "failed": [], "assumptions_ok": True, "nonfinite": []}
    try:
        ass = mod.setup(params, inp, lg)
        ans["assumptions_ok"] = all(bool(a) for a in ass)
        out = mod.scenario(pk, params, inp)
        if inp.assumption_failed:
            ans["assumptions_ok"] = False
        flat = flatten(out)
        ans["nonfinite"] = sorted(k for k, v in flat.items() if isinstance(v, (float, np.floating)) and (v != v or abs(v) == float("inf")))[:8]
        ans["outputs"] = {k: leaf_to_json(v) for k, v in flat.items()}
        cl = list(mod.claims(params, inp, out, lg))
        if hasattr(mod, "canaries"):
            cl += list(mod.canaries(params, inp, out, lg))
        ans["failed"] = [c[0] for c in cl if not bool(c[1])]
    except MemoryError as e:
        raise _JobAbort("concrete job exceeded its memory limit") from e
    except Exception as e:  # noqa: BLE001
        ans["exception"] = type(e).__name__
        ans["message"] = str(e)[:300]
        ans["traceback"] = traceback.format_exc()[-1500:]
    return ans


class ConcreteServer:
    """One unpatched interpreter answering scenario jobs."""

    def __init__(self, heavy=False, repo=None):
        env = dict(os.environ)
        env["PYTHONPATH"] = VERIF + os.pathsep + os.path.join(VERIF, ".deps")
        env["VERIF_HEAVY"] = "1" if heavy else "0"
        if repo:
            env["VERIF_REPO"] = repo
        self.p = subprocess.Popen([sys.executable, "-m", "harness.common", "concrete"], stdin=subprocess.PIPE,
                                  stdout=subprocess.PIPE, stderr=subprocess.PIPE, text=True, env=env, cwd=VERIF)

    def ask(self, job):
        self.p.stdin.write(json.dumps(job) + "\n")
        self.p.stdin.flush()
        line = self.p.stdout.readline()
        if not line:
            err = self.p.stderr.read()
            raise RuntimeError("concrete server died: " + err[-2000:])
        return json.loads(line)

    def close(self):
        try:
            self.p.stdin.close()
            self.p.wait(timeout=20)
        except Exception:  # noqa: BLE001
            self.p.kill()


# =============================================================== replay scripts
REPLAY_TEMPLATE = '''#!/venv/bin/python
"""Replay of a counterexample found by the solver for {pid} / {claim}.

Runs the scenario of harness `{module}` against the UNPATCHED float64 package
(VERIF_REPO or /repo) with the concrete input values of the solver's model and
re-evaluates the violated claim.  Exit 1 = the violation reproduces, 0 = it does not.
"""
import json, os, sys
sys.path[:0] = [{verif!r}, os.path.join({verif!r}, ".deps")]
os.environ.setdefault("VERIF_HEAVY", {heavy!r})
JOB = json.loads({job!r})
CLAIM = {claim!r}
EXPECT = {expect!r}       # exception type seen in exact arithmetic (ZeroDivisionError there = nan / inf in float64)
from symx import bootstrap
from harness import common
pk = bootstrap.load(symbolic=False, heavy={heavy!r} == "1")
ans = common.concrete_job(pk, JOB)
print("params  :", json.dumps(JOB["params"]))
print("inputs  :", json.dumps(JOB["values"]))
if ans["exception"]:
    print("raised  :", ans["exception"], ans.get("message"))
else:
    print("outputs :", json.dumps(ans["outputs"])[:4000])
    print("failed claims:", ans["failed"])
print("input assumptions hold:", ans["assumptions_ok"])
if ans.get("nonfinite"):
    print("non-finite outputs:", ans["nonfinite"])
hit = ((CLAIM == "no-exception" and ans["exception"] is not None) or (CLAIM in ans["failed"])
       or (CLAIM == "no-exception" and EXPECT == "ZeroDivisionError" and bool(ans.get("nonfinite")))) and ans["assumptions_ok"]
print("REPRODUCED" if hit else "NOT REPRODUCED", "-", CLAIM)
sys.exit(1 if hit else 0)
'''


def write_replay(pid, module, params, values, claim, heavy, expect=None, lenient=False):
    os.makedirs(os.path.join(VERIF, "replays"), exist_ok=True)
    job = {"module": module, "params": params, "values": values}
    if lenient:
        job["lenient"] = True
    h = hashlib.sha1(json.dumps([job, claim], sort_keys=True).encode()).hexdigest()[:10]
    path = os.path.join(VERIF, "replays", f"{pid}-{_slug(claim)}-{h}.py")
    with open(path, "w") as f:
        f.write(REPLAY_TEMPLATE.format(pid=pid, claim=claim, module=module, verif=VERIF,
                                       heavy="1" if heavy else "0", job=json.dumps(job), expect=expect))
    return path


def _slug(s):
    return "".join(ch if ch.isalnum() else "_" for ch in s)[:40]


def run_replay(path, repo=None):
    env = dict(os.environ)
    if repo:
        env["VERIF_REPO"] = repo
    p = subprocess.run([sys.executable, path], capture_output=True, text=True, env=env, timeout=900)
    return p.returncode, p.stdout[-3000:] + p.stderr[-1500:]


if __name__ == "__main__":
    if len(sys.argv) > 1 and sys.argv[1] == "concrete":
        concrete_main()
