"""C02 — superadditive bounds are tight: closed forms and attaining completions."""
from __future__ import annotations

from . import families as F
from .c01_sound import _v, build_game, read_game
from . import c01_sound
from . import histories as H

ID = "C02"
HEAVY = False
LOGIC = "QF_LRA"
BUDGET_S = {"quick": 200, "thorough": 3000}
TIMEOUT_MS = {"quick": 20000, "thorough": 300000}
ASSUMPTIONS = [
    "exact real arithmetic", "hidden game superadditive (textbook constraints)",
    "pre-state as in C01: every unknown row's stored lower/upper are free variables (any operation history)",
    "reference lower bound = max over set partitions of S into known blocks; reference upper = min over known T⊋S of v(T)-Lref(T\\S) "
    "(both built by the harness from the property text, independent of the code's recursion)",
    "attainment: the lower-bound game L and, per unknown S, w_S(T)=max(L_T, U_S+L_{T\\S}) for T⊇S (else L_T) are shown to be superadditive "
    "completions agreeing with the known values; with C01 this gives min/max over the completion polytope",
]
OUTSIDE = ["float rounding", "knowledge sets not listed for n>=5", "n>=6"]
STUBS = c01_sound.STUBS


def bounds_text(tier):
    if tier == "quick":
        return "n=3 all K, n=4 all K (cached) + 128 seeded K (uncached), closed form + witnesses; n=5 32 K closed form"
    return "n=3,4 all K both computers closed form + witnesses; n=5 F5 closed form (cached), 200 K witnesses"


def tasks(tier, seed):
    out = []

    def add(n, K, comp, wit=True, hist="stale"):
        out.append({"key": f"n{n}/{comp}/K={','.join(map(str, K))}/w{int(wit)}" + ("" if hist == "stale" else "/" + hist), "n": n, "K": K,
                    "computer": comp, "witness": wit, "history": hist})
    for comp in c01_sound.COMPUTERS:
        add(3, [], comp)
    fam3, _ = F.family(3, tier, seed)
    fam4, _ = F.family(4, tier, seed)
    for comp in c01_sound.COMPUTERS:
        for K in fam3:
            if K:
                add(3, K, comp)
    for K in fam4:
        add(4, K, "superadditive_cached")
    unc = fam4 if tier == "thorough" else F.sample(fam4, 128, seed, "c02unc")
    for K in unc:
        add(4, K, "superadditive")
    # seeded operation histories on one object (state kept outside the value table, see harness/histories.py): closed form only
    for comp in c01_sound.COMPUTERS:
        for K in fam3:
            for j in range(2 if tier == "quick" else 5):
                add(3, K, comp, wit=False, hist=f"ops{j}")
        for K in F.sample([k for k in fam4 if len(k) < len(F.extras(4))], 48 if tier == "quick" else 256, seed, "c02ops"):
            add(4, K, comp, wit=False, hist="ops0")
            if tier == "thorough":
                add(4, K, comp, wit=False, hist="ops1")
    # seven players with almost everything known (more than 64 known coalitions): flat bounds for the few unknown coalitions
    unk7 = [3, 5, 24, 67, 96, 7, 56]
    for comp in c01_sound.COMPUTERS:
        add(7, [S for S in F.extras(7) if S not in unk7], comp, wit=False)
    fam5, _ = F.family(5, tier, seed)
    for K in F.sample(fam5, 6 if tier == "quick" else 40, seed, "c02ops5"):
        add(5, K, "superadditive_cached", wit=False, hist="ops0")
    if tier == "thorough":
        for K in fam5:
            add(5, K, "superadditive_cached", wit=False)
        for K in F.sample(fam5, 200, seed, "c02w5"):
            add(5, K, "superadditive_cached", wit=True)
        for K in F.sample(fam5, 100, seed, "c02u5"):
            add(5, K, "superadditive", wit=False)
    else:
        for K in F.sample(fam5, 32, seed, "c02q5"):
            add(5, K, "superadditive_cached", wit=False)
    return out


def setup(params, inp, lg):
    n = params["n"]
    v = _v(params, inp)
    known = set(F.minimal(n)) | set(params["K"])
    for S in range(2 ** n):
        if S not in known:
            inp.real(f"staleL{S}")
            inp.real(f"staleU{S}")
    if str(params.get("history", "")).startswith("ops"):
        for nm in H.stale_names(H.plan(n, params["K"], params["history"])):
            inp.real(nm)
    return F.sa_constraints(v, n, lg)


def scenario(pk, params, inp):
    v = _v(params, inp)
    # "the same inputs as C01": the pre-state of every unknown row is arbitrary (free stale variables)
    hist = params.get("history", "stale")
    g, known, unknown = build_game(pk, dict(params, history=hist if str(hist).startswith("ops") else "stale"), inp, v)
    g.compute_bounds()
    return read_game(pk, g, params["n"])


def claims(params, inp, out, lg):
    n = params["n"]
    v = _v(params, inp)
    known = set(F.minimal(n)) | set(params["K"])
    L, U = out["L"], out["U"]
    zero = lg.const(0)
    cl = []
    for S in range(2 ** n):
        if S in known:
            continue
        cl.append((f"lower-closed-form:S={S}", lg.eq(L[S], F.lref(known, S, v, zero))))
        cl.append((f"upper-closed-form:S={S}", lg.eq(U[S], F.uref(known, S, v, n, zero))))
    if params.get("witness"):
        pairs = list(F.disjoint_pairs(n))
        cl.append(("lower-game-superadditive", lg.And([lg.le(L[A] + L[B], L[A | B]) for A, B in pairs])))
        cl.append(("lower-game-agrees-on-K", lg.And([lg.eq(L[T], v[T]) for T in sorted(known)])))
        for S in range(2 ** n):
            if S in known:
                continue

            def w(T, S=S):
                if T & S == S:
                    return F.vmax([L[T], U[S] + L[T & ~S]])
                return L[T]
            cl.append((f"upper-witness-superadditive:S={S}", lg.And([lg.le(w(A) + w(B), w(A | B)) for A, B in pairs])))
            cl.append((f"upper-witness-agrees-on-K:S={S}", lg.And([lg.eq(w(T), v[T]) for T in sorted(known)])))
            cl.append((f"upper-witness-attains:S={S}", lg.eq(w(S), U[S])))
    return cl


def canaries(params, inp, out, lg):
    n = params["n"]
    known = set(F.minimal(n)) | set(params["K"])
    unk = [S for S in range(2 ** n) if S not in known]
    if not unk:
        return []
    S = unk[0]
    return [(f"canary-degenerate-interval:S={S}", lg.le(out["U"][S], out["L"][S]))]


def test_vectors(params):
    return c01_sound.test_vectors(params)
