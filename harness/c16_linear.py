"""C16 — the size-aggregated environment is a faithful abstraction of the full one."""
from __future__ import annotations

import random
import types
from fractions import Fraction

from . import families as F
from .c08_function import gap_functions

ID = "C16"
HEAVY = False
NONLINEAR = "uf"
BUDGET_S = {"quick": 200, "thorough": 2400}
TIMEOUT_MS = {"quick": 30000, "thorough": 300000}
ASSUMPTIONS = [
    "exact real arithmetic; hidden game superadditive (symbolic)",
    "np.random.choice inside the linear environment replaced by a nondeterministic choice explored exhaustively (every candidate)",
    "per-size sums compared with an explicit reference sum (not np.bincount)",
]
OUTSIDE = ["float rounding", "n>=5", "distribution of the random tie-break (only: every outcome is a valid one)"]
STUBS = ["np proxy", "SymArray", "np.bincount model", "np.random.choice -> exhaustive nondeterministic choice", "generator stub"]


def bounds_text(tier):
    if tier == "quick":
        return "n=3 all knowledge sets x every size; n=4 64 seeded knowledge sets x every size x every candidate; consecutive linear steps without mask queries (all size pairs, n=3,4)"
    return "n=3 complete; n=4 all 1024 knowledge sets x every size x every candidate"


def tasks(tier, seed):
    out = []
    rnd = random.Random(f"c16/{seed}")
    for n, fam in ((3, F.family(3, tier, seed)[0]), (4, F.family(4, tier, seed)[0])):
        if n == 4 and tier == "quick":
            fam = F.sample(fam, 64, seed, "c16n4")
        for K in fam:
            for k in range(n):
                comp = rnd.choice(["superadditive", "superadditive_cached"])
                gap = rnd.choice(["exploitability", "l1_norm", "linf_norm"])
                out.append({"key": f"n{n}/{comp}/{gap}/K={','.join(map(str, K))}/size={k}", "n": n, "K": K, "k": k,
                            "computer": comp, "gap": gap})
    for K in F.family(3, tier, seed)[0]:          # hidden games of any class
        for k in range(3):
            out.append({"key": f"n3/superadditive_cached/exploitability/K={','.join(map(str, K))}/size={k}/anyclass", "n": 3, "K": K, "k": k,
                        "computer": "superadditive_cached", "gap": "exploitability", "anyclass": True})
    # underlying environments with additional initially known coalitions - in particular a whole size class in the MIDDLE of the explorable
    # range (n=5: all triples known, sizes 2 and 4 explorable), and one where only a single size is left
    triples5 = [S for S in range(32) if F.popcount(S) == 3]
    pairs4 = [S for S in range(16) if F.popcount(S) == 2]
    for n_, init, Ks in ((5, triples5, ([], [30, 29, 27])), (4, pairs4, ([], [7])), (4, [3, 7], ([], [5]))):
        for K in Ks:
            for k in range(2, n_):
                if n_ == 5 and (k == 2 or (k == 4 and not K)) and tier == "quick":
                    continue          # ten candidates of that size: ten forks of a five-player run (thorough only)
                out.append({"key": f"init/n{n_}/init#{len(init)}/K={','.join(map(str, K))}/size={k}", "n": n_, "K": K, "k": k, "init": init,
                            "computer": "superadditive_cached", "gap": "l1_norm"})
    # consecutive linear steps with NO mask query in between (a cached mask must not go stale)
    for n in (3, 4):
        sizes = list(range(2, n))
        seqs = [[a, b] for a in sizes for b in sizes] + ([[2, 2, 2]] if n == 3 else [[2, 3, 2], [3, 3, 2]])
        for seq in seqs:
            out.append({"key": f"blind/n{n}/sizes={','.join(map(str, seq))}", "n": n, "K": [], "k": -1, "seq": seq,
                        "computer": rnd.choice(["superadditive", "superadditive_cached"]), "gap": "l1_norm"})
    return out


def _draw(inp, d, n):
    return [inp.const(0)] + [inp.real(f"d{d}v{S}") for S in range(1, 2 ** n)]


def setup(params, inp, lg):
    n = params["n"]
    ass = []
    for d in (1, 2, 3):
        if not params.get("anyclass"):
            ass += F.sa_constraints(_draw(inp, d, n), n, lg)
    return ass


class _ChoiceRandom:
    def __init__(self, inp):
        self.inp = inp
        self.calls = []

    def choice(self, a, *args, **kw):
        a = list(a)
        i = self.inp.choose(len(a), "np.random.choice")
        self.calls.append([int(x) for x in a])
        return a[i]


def _shim(base, rand):
    shim = types.ModuleType("numpy_shim")
    shim.__getattr__ = lambda name: getattr(base, name)      # module-level __getattr__ (PEP 562)
    shim.random = rand
    return shim


def scenario(pk, params, inp):
    import numpy as np
    n = params["n"]
    C = pk.coalitions.Coalition
    counter = {"k": 0}

    def full(vals):
        g = pk.game.IncompleteCooperativeGame(n)
        a = np.empty(2 ** n, dtype=object if pk.symbolic else float)
        for i, x in enumerate(vals):
            a[i] = x
        g.set_values(a)
        return g

    def gen():
        counter["k"] += 1
        return full(_draw(inp, counter["k"], n))
    rand = _ChoiceRandom(inp)
    mod = pk.icg_gym_linear
    old_np = mod.np
    mod.np = _shim(old_np, rand)
    try:
        if params.get("init"):
            # another wrapper in the same process, same player count, the same NUMBER of initially known coalitions but other sizes
            # (module-level state keyed too coarsely must not leak from one environment into the other)
            other = [S for S in F.extras(n) if S not in params["init"]]
            other.sort(key=lambda S: -F.popcount(S))
            decoy_init = other[: len(set(params["init"]) - set(F.minimal(n)))]
            dgame = pk.game.IncompleteCooperativeGame(n, pk.bounds.BOUNDS[params["computer"]])
            dinner = pk.icg_gym.ICG_Gym(dgame, lambda: full(_draw(inp, 3, n)), [C(S) for S in F.minimal(n)] + [C(S) for S in decoy_init],
                                        gap_functions(pk)[params["gap"]])
            dlin = mod.ICG_Gym_Linear(dinner)
            dlin.reset()
            dlin.action_masks()
        game = pk.game.IncompleteCooperativeGame(n, pk.bounds.BOUNDS[params["computer"]])
        inner = pk.icg_gym.ICG_Gym(game, gen, [C(S) for S in F.minimal(n)] + [C(S) for S in params.get("init", [])], gap_functions(pk)[params["gap"]])
        lin = mod.ICG_Gym_Linear(inner)
        obs0, _ = lin.reset()
        ex = [c.id for c in inner.explorable_coalitions]
        out = {"explorable": ex, "reset_obs": list(obs0), "reset_inner": list(inner.state), "reset_len": len(obs0)}
        held = [(obs0, list(obs0))]          # (returned object, its content when it was returned)
        if params.get("seq"):
            steps = []
            for kk in params["seq"]:
                before = [bool(game.is_value_known(C(S))) for S in range(2 ** n)]
                if not any(F.popcount(S) == kk and not before[S] for S in ex):
                    break
                obs, reward, done, trunc, info = lin.step(kk)          # no action_masks() call in between
                steps.append({"k": kk, "known_before": before, "known_after": [bool(game.is_value_known(C(S))) for S in range(2 ** n)],
                              "chosen": int(info["chosen_coalition"]), "obs": list(obs), "inner_after": list(inner.state),
                              "reward": reward, "inner_reward": inner.reward, "done": bool(done), "inner_done": bool(inner.done)})
            out["blind_steps"] = steps
            # a second episode on the same wrapper: the state property must follow the reset
            obs_r, _ = lin.reset()
            out["after_reset"] = {"obs": list(obs_r), "state": list(lin.state), "inner": list(inner.state), "mask": [bool(x) for x in lin.action_masks()]}
            return out
        for S in params["K"]:
            inner.step(ex.index(S))
        out["mask"] = [bool(x) for x in lin.action_masks()]
        out["mask_len"] = len(out["mask"])
        st_obj = lin.state
        held.append((st_obj, list(st_obj)))
        lin.action_masks()
        out["state"] = list(lin.state)
        out["inner_state"] = list(inner.state)
        out["known_before"] = [bool(game.is_value_known(C(S))) for S in range(2 ** n)]
        k = params["k"]
        out["stepped"] = False
        if out["mask"][k]:
            obs, reward, done, trunc, info = lin.step(k)
            out.update({"stepped": True, "obs": list(obs), "obs_len": len(obs), "reward": reward, "done": bool(done),
                        "chosen": int(info["chosen_coalition"]), "candidates": rand.calls[-1],
                        "known_after": [bool(game.is_value_known(C(S))) for S in range(2 ** n)],
                        "inner_after": list(inner.state), "inner_reward": inner.reward, "inner_done": bool(inner.done),
                        "lin_reward": lin.reward, "lin_done": bool(lin.done)})
            held.append((obs, list(obs)))
            lin.action_masks()
            _ = lin.state
        out["held_now"] = [list(o) for o, _c in held]
        out["held_then"] = [c for _o, c in held]
        return out
    finally:
        mod.np = old_np


def _per_size(lg, vec, ex, n):
    sums = [lg.const(0) for _ in range(n)]
    for x, S in zip(vec, ex):
        sums[F.popcount(S)] = sums[F.popcount(S)] + x
    return sums


def claims(params, inp, out, lg):
    n, k = params["n"], params["k"]
    ex = out["explorable"]
    known = set(F.minimal(n)) | set(params["K"]) | set(params.get("init", []))
    cl = [("reset-observation-length-n", out["reset_len"] == n),
          ("explorable-are-the-initially-unknown", ex == [S for S in range(2 ** n) if S not in set(F.minimal(n)) | set(params.get("init", []))])]
    ref0 = _per_size(lg, out["reset_inner"], ex, n)
    cl.append(("reset-observation-per-size-sum", lg.And([lg.eq(a, b) for a, b in zip(out["reset_obs"], ref0)])))
    if "blind_steps" in out:
        for i, st in enumerate(out["blind_steps"]):
            newly = [S for S in range(2 ** n) if st["known_after"][S] and not st["known_before"][S]]
            cl.append((f"consecutive-step-{i}:exactly-one-new-known-of-that-size",
                       len(newly) == 1 and F.popcount(newly[0]) == st["k"] and newly[0] in ex and st["chosen"] == newly[0]))
            cl.append((f"consecutive-step-{i}:nothing-forgotten", all(st["known_after"][S] for S in range(2 ** n) if st["known_before"][S])))
            refb = _per_size(lg, st["inner_after"], ex, n)
            cl.append((f"consecutive-step-{i}:observation-per-size-sum", lg.And([lg.eq(a, b) for a, b in zip(st["obs"], refb)])))
            cl.append((f"consecutive-step-{i}:reward-done-pass-through", lg.And(lg.eq(st["reward"], st["inner_reward"]), st["done"] == st["inner_done"])))
        ar = out["after_reset"]
        refr = _per_size(lg, ar["inner"], ex, n)
        cl.append(("second-episode:reset-observation-and-state-per-size-sum",
                   lg.And([lg.eq(a, b) for a, b in zip(ar["obs"], refr)], [lg.eq(a, b) for a, b in zip(ar["state"], refr)], len(ar["state"]) == n)))
        cl.append(("second-episode:mask-reopened", ar["mask"] == [any(F.popcount(S) == s for S in ex) for s in range(n)]))
        return cl
    cl.append(("mask-length-n", out["mask_len"] == n))
    for s in range(n):
        exists = any(F.popcount(S) == s and S not in known for S in ex)
        cl.append((f"mask-iff-unknown-of-size:{s}", out["mask"][s] == exists))
    ref = _per_size(lg, out["inner_state"], ex, n)
    cl.append(("state-per-size-sum", lg.And(len(out["state"]) == n, [lg.eq(a, b) for a, b in zip(out["state"], ref)])))
    if "held_now" in out:
        cl.append(("returned-observations-are-not-overwritten-by-later-calls",
                   lg.And([lg.eq(a, b) for now, then in zip(out["held_now"], out["held_then"]) for a, b in zip(now, then)])))
    if out["stepped"]:
        newly = [S for S in range(2 ** n) if out["known_after"][S] and not out["known_before"][S]]
        cl.append(("exactly-one-new-known", len(newly) == 1))
        if len(newly) == 1:
            S = newly[0]
            cl.append(("new-known-has-requested-size", F.popcount(S) == k))
            cl.append(("new-known-was-unknown-explorable", S in ex and S not in known))
            cl.append(("info-reports-it", out["chosen"] == S))
        cl.append(("nothing-forgotten", all(out["known_after"][S] for S in range(2 ** n) if out["known_before"][S])))
        cl.append(("candidates-are-exactly-unknown-of-size", sorted(ex[i] for i in out["candidates"]) ==
                   sorted(S for S in ex if F.popcount(S) == k and S not in known)))
        ref2 = _per_size(lg, out["inner_after"], ex, n)
        cl.append(("observation-per-size-sum", lg.And(out["obs_len"] == n, [lg.eq(a, b) for a, b in zip(out["obs"], ref2)])))
        cl.append(("reward-is-inner-reward", lg.And(lg.eq(out["reward"], out["inner_reward"]), lg.eq(out["lin_reward"], out["inner_reward"]))))
        cl.append(("done-is-inner-done", out["done"] == out["inner_done"] and out["lin_done"] == out["inner_done"]))
    return cl


def canaries(params, inp, out, lg):
    if "blind_steps" in out or not out["stepped"]:
        return []
    return [("canary-reward-below-minus-one", lg.le(out["reward"], lg.const(-1)))]


CANARY_TASKS = 12


def test_vectors(params):
    n = params["n"]
    vecs = []
    for t in range(2):
        d = {}
        games = F.sa_test_games(n, 21 + t, 3)
        for k in (1, 2, 3):
            for S in range(1, 2 ** n):
                d[f"d{k}v{S}"] = games[(k + t) % 3][S]
        vecs.append(d)
    return vecs
