"""C19 — saved results read back faithfully and are never overwritten.

What is symbolic: every finite entry of the gap and action matrices (z3 reals that the package never sees as numbers), the hidden
game of the 'produced' tasks, and — in the 'sequence' tasks — WHICH name each save of a history uses (a nondeterministic choice the
engine forks on).  What is concrete per task: matrix shapes, the positions of the NaN padding, the metadata objects.

The real save / load code runs unmodified on a real scratch directory.  The only stub is the *number literal* of the JSON codec:
a symbolic real cannot be printed, so `json` inside run/save.py is wrapped so that a symbolic leaf is written as a placeholder
object and read back as the same term (the contract assumed: CPython's float repr / parse round-trips every finite double, NaN is
written as NaN and read back as NaN).  Everything else — tolist(), the dictionary logic, default= serialisation of metadata,
np.array(...) on the way back, file handling — is the package's and the real json module's own code.
"""
from __future__ import annotations

import json as _json
import math
import os
import random
import shutil
import tempfile
from argparse import Namespace
from fractions import Fraction
from pathlib import Path

from . import families as F

ID = "C19"
HEAVY = True
NONLINEAR = "uf"      # the plot savers take np.std of the (symbolic) gap matrix: keep square / square root uninterpreted
BUDGET_S = {"quick": 200, "thorough": 1500}
MAX_TASK_S = {"quick": 90, "thorough": 600}
MAX_PATHS = 5000
ASSUMPTIONS = [
    "matrix entries are arbitrary reals (one z3 variable per finite entry); NaN padding positions, shapes and metadata objects are concrete "
    "per task (listed in bounds)",
    "JSON number-literal contract: a finite double written by json.dump is read back as the same double, NaN is written as NaN and read back "
    "as NaN (CPython's repr/float round-trip guarantee); the stub carries a symbolic leaf through the real json encoder / decoder as a "
    "placeholder object — containers, strings, keys, default= handling and the file are the real json module's and the package's own code",
    "sequence tasks: the name used by each save is a nondeterministic choice from a small pool (the engine forks; feasibility by z3)",
    "produced tasks: hidden game = vector of fresh reals (superadditive), RNG = draw counter, Pool = in-process model (as in C12/C11/C13)",
    "the two matplotlib savers are replaced by no-ops (plots are not the subject); save() itself and its SAVERS loop are real",
]
OUTSIDE = ["byte-level float printing/parsing (assumed by contract)", "infinite values", "concurrent writers", "the PPO eval path",
           "metadata objects other than the listed kinds (Path, str, int, float, bool, None, tuple, list, nested dict, callable)"]
STUBS = ["JSON number-literal placeholder codec", "matplotlib savers = no-ops", "Pool stub", "draw-counter RNG"]
XCHECK_IGNORE = ("origT.", "gotT.")
CONC_TOL = 0.0          # "round-trip exactly": in the float64 world the value read back must be the very double that was saved


def bounds_text(tier):
    if tier == "quick":
        return ("round-trip: 12 (shape, NaN pattern, metadata, loader, saver) combinations incl. 3-d action arrays and 1x1; sequences: every "
                "assignment of names from a pool of 3 to 3 consecutive saves on top of 0/1/2 earlier runs; produced: solve (largest, greedy), "
                "greedy, best-states at n=3")
    return ("round-trip: 24 combinations; sequences: 4 consecutive saves, pool of 3, 0..2 earlier runs; produced: + n=4 solve (largest)")


# ------------------------------------------------------------------------------------------------ the JSON number-literal stub
_TABLE = []
_KEY = "__symx_real__"


class SymJson:
    """Forwards to the real json module; symbolic reals ride through as placeholder objects."""

    def __init__(self):
        self.__dict__["_real"] = _json

    def __getattr__(self, name):
        return getattr(_json, name)

    @staticmethod
    def _wrap_default(default):
        from symx.values import SymReal

        def d(o):
            if isinstance(o, SymReal):
                _TABLE.append(o)
                return {_KEY: len(_TABLE) - 1}
            if default is None:
                raise TypeError(f"Object of type {type(o).__name__} is not JSON serializable")
            return default(o)
        return d

    @staticmethod
    def _hook(user_hook):
        def h(d):
            if len(d) == 1 and _KEY in d:
                return _TABLE[d[_KEY]]
            return user_hook(d) if user_hook else d
        return h

    def dumps(self, obj, *a, default=None, **kw):
        return _json.dumps(obj, *a, default=self._wrap_default(default), **kw)

    def dump(self, obj, fp, *a, default=None, **kw):
        return _json.dump(obj, fp, *a, default=self._wrap_default(default), **kw)

    def loads(self, s, *a, object_hook=None, **kw):
        return _json.loads(s, *a, object_hook=self._hook(object_hook), **kw)

    def load(self, fp, *a, object_hook=None, **kw):
        return _json.load(fp, *a, object_hook=self._hook(object_hook), **kw)


class _Anything:
    """Absorbs any matplotlib call."""

    def __call__(self, *a, **k):
        return _Anything()

    def __getattr__(self, name):
        return _Anything()

    def __iter__(self):
        return iter((_Anything(), _Anything()))


class _PltStub(_Anything):
    """matplotlib.pyplot inside run/save.py: drawing is a no-op, savefig creates the (empty) picture file - the plot savers' own
    path / directory logic and their side effects on the results folder stay real."""

    def savefig(self, fname, *a, **k):
        with open(os.fspath(fname), "wb"):
            pass

    def subplots(self, *a, **k):
        return _Anything(), _Anything()


def _install(pk):
    """Symbolic world: placeholder codec inside run/save.py.  Both worlds: pyplot replaced by the stub above."""
    sv = pk.run_save
    if pk.symbolic and not isinstance(sv.json, SymJson):
        sv.json = SymJson()
        from symx import arrays
        arrays.TOLIST_SYMBOLIC_OK = True
    _TABLE.clear()
    if not isinstance(sv.plt, _PltStub):
        sv.plt = _PltStub()


# ------------------------------------------------------------------------------------------------ payloads
def _eval_like(args):      # a callable whose repr contains 'eval' (Output.metadata derives run_type from repr(func))
    return None


def _learn_like(args):
    return None


_learn_like.__qualname__ = _learn_like.__name__ = "learn_func"

META = {
    "plain": lambda: dict(func=_eval_like, solver="greedy", seed=7, number_of_players=4),
    "paths": lambda: dict(func=_learn_like, model_dir=Path("/some/dir"), model_path=Path("rel/model"), unique_name="x", gamma=1, ent_coef=0.1,
                          linear=False, features_extractor=None),
    "nested": lambda: dict(func=_eval_like, sizes=(1, 2, 3), table={"a": [1, 2.5, None], "b": {"c": True}}, empty=[], text="ünï \"quoted\"\n",
                           big=2 ** 70, neg=-0.0, tiny=5e-324),
    "odd": lambda: dict(func=_eval_like, fn=len, cls=Fraction, frac=Fraction(1, 3), path_list=[Path("a"), Path("/b/c")], none=None,
                        run_type_hint="learn"),
}


def _stringified(meta):
    """Reference, written from the JSON rules and the documented fallback (Path -> str, anything else unknown -> repr)."""
    def conv(o):
        if o is None or isinstance(o, (bool, str)):
            return o
        if isinstance(o, int):
            return o
        if isinstance(o, float):
            return o
        if isinstance(o, (list, tuple)):
            return [conv(x) for x in o]
        if isinstance(o, dict):
            return {(k if isinstance(k, str) else _json.dumps(k) if isinstance(k, (bool, type(None))) else str(k)): conv(v) for k, v in o.items()}
        if isinstance(o, Path):
            return str(o)
        return repr(o)
    m = dict(meta)
    func = m.pop("func")
    m["run_type"] = "eval" if "eval" in repr(func) else "learn"
    out = conv(m)
    out["func"] = out["run_type"]      # the loader re-creates `func` from run_type
    return out


def _matrix(pk, inp, tag, shape, nan_positions, ids=False):
    """Object array of fresh reals with NaN at the listed flat positions (concrete world: float64 array).
    ids=True: concrete coalition ids instead of free reals (the plot savers turn action entries into integers)."""
    import numpy as np
    size = 1
    for s in shape:
        size *= s
    if ids:
        rnd = random.Random(f"ids/{tag}/{shape}")
        return np.array([float("nan") if k in nan_positions else float(rnd.randint(3, 14)) for k in range(size)], dtype=float).reshape(shape)
    flat = []
    for k in range(size):
        flat.append(float("nan") if k in nan_positions else inp.real(f"{tag}_{k}"))
    if pk.symbolic:
        from symx.arrays import SymArray
        a = np.empty(size, dtype=object)
        for k, x in enumerate(flat):
            a[k] = x
        return a.reshape(shape).view(SymArray)
    return np.array([float(x) for x in flat], dtype=float).reshape(shape)


def _entries(a):
    """Flat list of entries (terms / floats) plus shape and dtype kind of a loaded or produced array."""
    import numpy as np
    arr = np.asarray(a)
    return {"shape": list(arr.shape), "flat": [x for x in arr.reshape(-1).tolist()] if arr.dtype == object else [float(x) for x in arr.reshape(-1)],
            "kind": "number" if arr.dtype.kind in "fOiu" else arr.dtype.kind}


def _isnan(x):
    return isinstance(x, float) and math.isnan(x)


PAYLOADS = {
    # name: (data shape, data NaN positions, actions shape, actions NaN positions)
    "1x1": ((1, 1), (), (1, 1), ()),
    "3x2": ((3, 2), (), (2, 2), (3,)),
    "4x3pad": ((4, 3), (9, 10, 11), (3, 3), (6, 7, 8, 5)),
    "2x5": ((2, 5), (), (1, 5), ()),
    "best3d": ((3, 2), (), (3, 2, 2), (0, 1, 2, 3, 5, 7)),
    "col": ((5, 1), (4,), (4, 1), (3,)),
    # (an action matrix that is NaN everywhere would be a run of zero steps - outside the property, and the picture saver rejects it)
    "mostly-nan-actions": ((3, 2), (), (2, 2), (1, 2, 3)),
    "wide": ((2, 9), (17,), (1, 9), (8,)),
}


def _output(pk, inp, tag, payload, meta, ids=False):
    ds, dn, as_, an = PAYLOADS[payload]
    data = _matrix(pk, inp, f"{tag}d", ds, set(dn))
    actions = _matrix(pk, inp, f"{tag}a", as_, set(an), ids=ids)
    return pk.run_save.Output(data, actions, Namespace(**META[meta]())), data, actions


def tasks(tier, seed):
    out = []
    rnd = random.Random(f"c19/{seed}")
    combos = []
    pays, metas = list(PAYLOADS), list(META)
    k = 0
    for p in pays:
        for via in ("save_json", "save"):
            for loader in ("from_file", "get_outputs_from_file"):
                combos.append((p, metas[k % len(metas)], via, loader))
                k += 1
    rnd.shuffle(combos)
    must = [("best3d", "paths", "save", "from_file"), ("4x3pad", "nested", "save_json", "get_outputs_from_file"),
            ("4x3pad", "plain", "save", "from_file"), ("col", "paths", "save", "get_outputs_from_file"),
            ("1x1", "odd", "save_json", "from_file")]
    chosen = must + [c for c in combos if c not in must][: (9 if tier == "quick" else 21)]
    for p, m, via, loader in chosen:
        out.append({"key": f"roundtrip/{p}/{m}/{via}/{loader}", "kind": "roundtrip", "payload": p, "meta": m, "via": via, "loader": loader})
    for hist in (0, 1, 2):
        out.append({"key": f"sequence/history{hist}", "kind": "sequence", "history": hist, "saves": 3 if tier == "quick" else 4, "pool": 3})
    # a save that FAILS half-way (metadata the JSON encoder rejects: a dictionary with a tuple key) before the first / between later saves:
    # the results must still be readable and later saves must still work
    for hist, pos in ((0, 0), (1, 1), (0, 2)):
        out.append({"key": f"sequence-failing/history{hist}/at{pos}", "kind": "sequence", "history": hist, "saves": 3, "pool": 2, "failing": pos})
    # the same through save() (all savers, real side-effect files in the results folder) with run names that contain dots, differ only
    # after the last dot, or are prefixes of one another
    for hist, names in ((0, ["sweep_gamma0.5", "sweep_gamma0.25", "sweep_gamma0"]), (1, ["run.v1.0", "run.v1.1", "old0"]),
                        (2, ["2026-10-01T10:00:00.000001", "2026-10-01T10:00:00.000002", "2026-10-01T10:00:00"])):
        out.append({"key": f"sequence-save/history{hist}", "kind": "sequence", "history": hist, "saves": 3 if tier == "quick" else 4,
                    "pool": 3, "via": "save", "names": names})
    prods = [("solve", "largest", 3), ("solve", "greedy", 3), ("greedy", None, 3), ("best_states", None, 3)]
    if tier == "thorough":
        prods += [("solve", "largest", 4)]
    for what, solver, n in prods:
        out.append({"key": f"produced/{what}/{solver}/n{n}", "kind": "produced", "what": what, "solver": solver, "n": n})
    return out


def _draw(inp, d, n):
    return [inp.const(0)] + [inp.real(f"d{d}v{S}") for S in range(1, 2 ** n)]


N_DRAWS = 8


def setup(params, inp, lg):
    if params["kind"] != "produced":
        return []
    ass = []
    for d in range(1, N_DRAWS + 1):
        ass += F.strict_sa_constraints(_draw(inp, d, params["n"]), params["n"], lg)
    return ass


# ------------------------------------------------------------------------------------------------ scenarios
def _read_raw(pk, path):
    """The file as the package's own json sees it (symbolic world: placeholders resolved to terms)."""
    if not os.path.exists(path):
        return None
    with open(path, "r") as f:
        return pk.run_save.json.loads(f.read())


def _load(pk, path, name, loader):
    sv = pk.run_save
    if loader == "from_file":
        o = sv.Output.from_file(Path(path), name)
    else:
        o = sv.get_outputs_from_file(Path(path))[name]
    return {"data": _entries(o.data), "actions": _entries(o.actions), "meta": dict(vars(o.parsed_args))}


def _roundtrip(pk, params, inp, root):
    sv = pk.run_save
    out0, data, actions = _output(pk, inp, "p", params["payload"], params["meta"], ids=params["via"] == "save")
    orig = {"data": _entries(data), "actions": _entries(actions)}        # what the run produced, recorded BEFORE anything is saved
    if params["via"] == "save":
        sv.save(Path(root) / "model", "run-A", out0)
        path = os.path.join(root, "model", "data.json")
    else:
        path = os.path.join(root, "data.json")
        sv.save_json(Path(path), "run-A", out0)
    got = _load(pk, path, "run-A", params["loader"])
    after = {"data": _entries(data), "actions": _entries(actions)}       # the caller's own matrices after the save
    return {"orig": orig, "got": got, "callers_after": after,
            "meta_ref": _stringified(META[params["meta"]]()), "names": sorted(_read_raw(pk, path).keys())}


def _sequence(pk, params, inp, root):
    sv = pk.run_save
    via_save = params.get("via") == "save"
    path = os.path.join(root, "model", "data.json") if via_save else os.path.join(root, "data.json")

    def do_save(name, o):
        """Returns the exception type name if the save raised (FileExistsError from the picture folder of an existing run is the
        package's pinned behaviour for a repeated name through save(); it must then have changed nothing)."""
        try:
            if via_save:
                sv.save(Path(root) / "model", name, o)
            else:
                sv.save_json(Path(path), name, o)
        except FileExistsError:
            return "FileExistsError"
        return None
    pays = ["3x2", "4x3pad", "1x1", "2x5", "col", "best3d", "wide"] if not via_save else ["3x2", "2x5", "1x1", "best3d", "mostly-nan-actions", "4x3pad", "wide"]
    metas = list(META)
    ref = {}           # name -> (data entries, actions entries, meta ref) of the FIRST save under that name
    steps = []
    for h in range(params["history"]):
        o, d, a = _output(pk, inp, f"h{h}", pays[h], metas[h % len(metas)], ids=via_save)
        ref[f"old{h}"] = {"data": _entries(d), "actions": _entries(a), "meta_ref": _stringified(META[metas[h % len(metas)]]())}
        do_save(f"old{h}", o)
    pool = list(params.get("names") or [f"name{i}" for i in range(params["pool"])])
    if params["history"] and not params.get("names"):
        pool[-1] = "old0"          # one pool name collides with an earlier run
    failed = None
    for i in range(params["saves"]):
        if params.get("failing") == i:
            ob, _d, _a = _output(pk, inp, f"f{i}", "3x2", "plain", ids=via_save)
            ob.parsed_args.bad_key = {(1, 2): "a dictionary key JSON cannot write"}
            b0 = open(path, "rb").read() if os.path.exists(path) else None
            try:
                do_save("rejected-run", ob)
                failed = {"raised": None}
            except (TypeError, ValueError) as e:
                failed = {"raised": type(e).__name__}
            b1 = open(path, "rb").read() if os.path.exists(path) else None
            failed["file_unchanged"] = b0 == b1
            try:
                names_now = sorted((_read_raw(pk, path) or {}).keys())
                failed["still_readable"] = names_now == sorted(ref.keys())
                # a package that can serialise such metadata after all is fine too: the run is then simply saved
                failed["saved_instead"] = failed["raised"] is None and names_now == sorted(list(ref.keys()) + ["rejected-run"])
                if failed["saved_instead"]:
                    ref["rejected-run"] = None
            except Exception as e:  # noqa: BLE001
                failed["still_readable"] = False
                failed["saved_instead"] = False
        name = pool[inp.choose(len(pool), f"name-of-save-{i}")]
        o, d, a = _output(pk, inp, f"s{i}", pays[(i + 2) % len(pays)], metas[(i + 1) % len(metas)], ids=via_save)
        produced = {"data": _entries(d), "actions": _entries(a), "meta_ref": _stringified(META[metas[(i + 1) % len(metas)]]())}
        before_bytes = open(path, "rb").read() if os.path.exists(path) else None
        before_raw = _read_raw(pk, path) or {}
        raised = do_save(name, o)
        after_bytes = open(path, "rb").read() if os.path.exists(path) else None
        after_raw = _read_raw(pk, path) or {}
        existed = name in ref
        if not existed:
            ref[name] = produced
        steps.append({"name": name, "existed": existed, "raised": raised, "bytes_unchanged": before_bytes == after_bytes,
                      "names_after": sorted(after_raw.keys()), "names_expected": sorted(ref.keys()),
                      "earlier_raw_before": {k: before_raw[k] for k in sorted(before_raw)},
                      "earlier_raw_after": {k: after_raw.get(k) for k in sorted(before_raw)}})
    final = {}
    outs = sv.get_outputs_from_file(Path(path))
    for nm in sorted(ref):
        if ref[nm] is None:
            continue
        o = outs.get(nm)
        final[nm] = None if o is None else {"data": _entries(o.data), "actions": _entries(o.actions), "meta": dict(vars(o.parsed_args))}
    folder = os.path.dirname(path)
    return {"steps": steps, "final": final, "ref": ref, "failed": failed,
            "leftovers": sorted(x for x in os.listdir(folder) if x != "data.json" and not (via_save and x in ("data_plots", "chosen_coalitions")))}


class _CounterRng:
    def __init__(self):
        self.k = 0


def _instance(pk, params, inp, root, name):
    from .stubs import install_pool_stub
    install_pool_stub(pk)
    n = params["n"]

    def gen(nn, rng):
        import numpy as np
        rng.k += 1
        g = pk.game.IncompleteCooperativeGame(nn)
        a = np.empty(2 ** nn, dtype=object if pk.symbolic else float)
        for i, x in enumerate(_draw(inp, min(rng.k, N_DRAWS), nn)):
            a[i] = x
        g.set_values(a)
        return g
    pk.generators.GENERATORS["__sym__"] = gen
    inst = pk.run_model.ModelInstance(number_of_players=n, game_class="superadditive_cached", game_generator="__sym__",
                                      gap_function="exploitability", run_steps_limit=2, seed=5, parallel_environments=1,
                                      model_dir=Path(root) / "model", unique_name=name)
    inst.game_generator_rng = _CounterRng()
    return inst


def _produced(pk, params, inp, root):
    """The run entry points: what lands in the file must be the matrices the evaluation / search produced."""
    import numpy as np
    what = params["what"]
    name = "the-run"
    inst = _instance(pk, params, inp, root, name)
    if what == "solve":
        args = Namespace(func=pk.run_solve.solve_func, solver=params["solver"], solve_repetitions=2, seed=5)
        pk.run_solve.solve_func(inst, args)
        ref_inst = _instance(pk, params, inp, root, name)
        solver = pk.solvers.SOLVERS[params["solver"]](ref_inst)
        gaps, acts = pk.evaluation.evaluate(solver.next_step, ref_inst.get_env, 2, 2, ref_inst.gap_function_callable, 1, solver.after_reset)
    elif what in ("greedy", "greedy_random"):
        rnd = what == "greedy_random"
        args = Namespace(func=pk.run_greedy.greedy_func, sampling_repetitions=2, seed=5)
        pk.run_greedy.greedy_func(inst, args, randomize=rnd)
        ref_inst = _instance(pk, params, inp, root, name)
        from random import Random
        gaps, best = pk.run_greedy.get_greedy_rewards(ref_inst.get_env(), 2, 2, ref_inst.gap_function_callable, 1,
                                                      Random(ref_inst.seed) if rnd else None)
        acts = np.reshape(np.array(best), (len(best), 1))
    else:
        args = Namespace(func=pk.run_best_states.best_states_func, sampling_repetitions=2, eval_repetitions=2, seed=5)
        pk.run_best_states.best_states_func(inst, args)
        ref_inst = _instance(pk, params, inp, root, name)
        gaps, acts3 = None, np.full((3, 2, 2), np.nan)
        cols = []
        for rep in range(2):
            g, best = pk.run_best_states.get_best_exploitability(ref_inst.get_env(), 2, 2, ref_inst.gap_function_callable, processes=1)
            gaps = g if gaps is None else np.hstack((gaps, g))
            cols.append(best)
        for rep in range(2):
            for size, coal in enumerate(cols[rep]):
                for j, c in enumerate(coal):
                    acts3[size, rep, j] = c
        acts = acts3
    path = os.path.join(root, "model", "data.json")
    got = _load(pk, path, name, "from_file")
    # at n=3 the candidate sets of the searches are structurally tied; which one wins is decided by rounding noise in the float64 run, so
    # the search results are excluded from the symbolic-vs-float cross-check (keys ...T); the claims compare them within each world
    t = "" if (what == "solve" and params.get("solver") == "largest") else "T"
    return {"orig" + t: {"data": _entries(gaps), "actions": _entries(acts)}, "got" + t: got, "names": sorted(_read_raw(pk, path).keys())}


def scenario(pk, params, inp):
    _install(pk)
    root = tempfile.mkdtemp(prefix="c19_")
    try:
        if params["kind"] == "roundtrip":
            out = _roundtrip(pk, params, inp, root)
        elif params["kind"] == "sequence":
            out = _sequence(pk, params, inp, root)
        else:
            out = _produced(pk, params, inp, root)
    finally:
        shutil.rmtree(root, ignore_errors=True)
    return out


# ------------------------------------------------------------------------------------------------ claims
def _same_matrix(lg, a, b):
    """Shapes equal, NaN exactly where the original has NaN, every finite entry equal (as reals, for all values)."""
    if a is None or b is None or a["shape"] != b["shape"] or len(a["flat"]) != len(b["flat"]):
        return False
    parts = []
    for x, y in zip(a["flat"], b["flat"]):
        if _isnan(x) or _isnan(y):
            if not (_isnan(x) and _isnan(y)):
                return False
            continue
        if x is None or y is None or isinstance(x, str) or isinstance(y, str):
            return False
        parts.append(lg.eq(x, y))
    return lg.And(parts) if parts else True


def _meta_equal(got, ref):
    def norm(o):
        if isinstance(o, float) and math.isnan(o):
            return "NaN"
        if isinstance(o, dict):
            return {k: norm(v) for k, v in o.items()}
        if isinstance(o, (list, tuple)):
            return [norm(v) for v in o]
        return o
    return _json.dumps(norm(got), sort_keys=True, default=repr) == _json.dumps(norm(ref), sort_keys=True, default=repr)


def _raw_equal(lg, a, b):
    """Structural equality of two parsed JSON documents whose number leaves may be terms."""
    if isinstance(a, dict) and isinstance(b, dict):
        if sorted(a) != sorted(b):
            return False
        parts = [_raw_equal(lg, a[k], b[k]) for k in a]
    elif isinstance(a, list) and isinstance(b, list):
        if len(a) != len(b):
            return False
        parts = [_raw_equal(lg, x, y) for x, y in zip(a, b)]
    else:
        if _isnan(a) or _isnan(b):
            return _isnan(a) and _isnan(b)
        if a is None or b is None or isinstance(a, (str, bool)) or isinstance(b, (str, bool)):
            return type(a) is type(b) and a == b
        return lg.eq(a, b)
    if any(p is False for p in parts):
        return False
    return lg.And([p for p in parts if p is not True]) if any(p is not True for p in parts) else True


def claims(params, inp, out, lg):
    cl = []
    if params["kind"] in ("roundtrip", "produced"):
        o, g = out.get("orig", out.get("origT")), out.get("got", out.get("gotT"))
        cl.append(("gap-matrix-round-trips", _same_matrix(lg, o["data"], g["data"]), "C19/gap-matrix"))
        cl.append(("action-matrix-round-trips", _same_matrix(lg, o["actions"], g["actions"]), "C19/action-matrix"))
        cl.append(("loaded-matrices-are-numeric-arrays", g["data"]["kind"] == "number" and g["actions"]["kind"] == "number", "C19/dtype"))
        cl.append(("exactly-one-entry", out["names"] == (["run-A"] if params["kind"] == "roundtrip" else ["the-run"]), "C19/names"))
        if params["kind"] == "roundtrip":
            cl.append(("metadata-up-to-json-stringification", _meta_equal(g["meta"], out["meta_ref"]), "C19/metadata"))
            ca = out["callers_after"]
            cl.append(("saving-leaves-the-callers-matrices-alone", lg.And(_same_matrix(lg, o["data"], ca["data"]), _same_matrix(lg, o["actions"], ca["actions"])),
                       "C19/callers-data-changed"))
        return cl
    for i, st in enumerate(out["steps"]):
        cl.append((f"names-are-first-wins-union:save={i}", st["names_after"] == st["names_expected"], "C19/sequence/names"))
        if st["existed"]:
            cl.append((f"existing-name-changes-nothing:save={i}", st["bytes_unchanged"] is True, "C19/sequence/existing-name-overwritten"))
        else:
            cl.append((f"new-name-is-saved:save={i}", st["raised"] is None and st["name"] in st["names_after"], "C19/sequence/new-name-not-saved"))
        cl.append((f"earlier-entries-unchanged:save={i}", _raw_equal(lg, st["earlier_raw_before"], st["earlier_raw_after"]),
                   "C19/sequence/earlier-entry-changed"))
    for nm, ref in out["ref"].items():
        if ref is None:
            continue
        got = out["final"].get(nm)
        ok = got is not None
        cl.append((f"final-entry-is-the-first-save:{nm}:gaps", ok and _same_matrix(lg, ref["data"], got["data"]), "C19/sequence/final-gaps"))
        cl.append((f"final-entry-is-the-first-save:{nm}:actions", ok and _same_matrix(lg, ref["actions"], got["actions"]), "C19/sequence/final-actions"))
        cl.append((f"final-entry-is-the-first-save:{nm}:metadata", ok and _meta_equal(got["meta"], ref["meta_ref"]), "C19/sequence/final-metadata"))
    # (files left next to the results - temp files, backups - are not the property's business: not asserted)
    if out.get("failed") is not None:
        f = out["failed"]
        cl.append(("a-rejected-save-leaves-the-results-as-they-were",
                   (f["raised"] is not None and f["file_unchanged"] is True and f["still_readable"] is True) or f.get("saved_instead") is True,
                   "C19/sequence/failed-save-damages-results"))
    return cl


def canaries(params, inp, out, lg):
    # false on purpose: the first finite gap entry read back would have to be zero
    if params["kind"] == "sequence":
        return [("canary-every-save-changes-the-file", all(not st["bytes_unchanged"] for st in out["steps"]))]
    flat = [x for x in out.get("got", out.get("gotT"))["data"]["flat"] if not _isnan(x)]
    return [("canary-first-gap-entry-zero", lg.eq(flat[0], lg.const(0)))]


CANARY_TASKS = 3


def signature(params, v):
    return None


def test_vectors(params):
    vecs = []
    for t in range(3):
        rnd = random.Random(f"c19/{params['key']}/{t}")
        d = {}
        for tag in ["p"] + [f"h{i}" for i in range(3)] + [f"s{i}" for i in range(4)] + [f"f{i}" for i in range(4)]:
            for k in range(24):
                # awkward doubles on purpose: thirds, tiny, huge, negative zero neighbours, integers
                d[f"{tag}d_{k}"] = rnd.choice([Fraction(rnd.randint(-50, 50), 3), Fraction(1, 10 ** 12), Fraction(10 ** 15 + 1, 7), Fraction(rnd.randint(0, 9))])
                d[f"{tag}a_{k}"] = Fraction(rnd.randint(3, 30))
        if params["kind"] == "produced":
            games = F.sa_test_games(params["n"], 71 + t, 3)
            for k in range(1, N_DRAWS + 1):
                w = [Fraction(rnd.randint(1, 16), 4) for _ in range(params["n"])]
                for S in range(1, 2 ** params["n"]):
                    tot = sum(w[i] for i in range(params["n"]) if S >> i & 1)
                    d[f"d{k}v{S}"] = tot * tot + Fraction(F.popcount(S) - 1, 8) * (F.popcount(S) > 1)
        if params["kind"] == "sequence":
            d["__choices__"] = [rnd.randrange(params["pool"]) for _ in range(params["saves"])]
        vecs.append(d)
    return vecs
