"""C08 — bounds are a function of current knowledge: stale-free, idempotent, order-free, undoable."""
from __future__ import annotations

import random
from fractions import Fraction

from . import families as F
from . import histories as H

ID = "C08"
HEAVY = False
NONLINEAR = "uf"
BUDGET_S = {"quick": 220, "thorough": 3000}
TIMEOUT_MS = {"quick": 20000, "thorough": 300000}
COMPUTERS = ["superadditive", "superadditive_cached", "sam_apx_1", "sam_apx_10", "sam_apx_100", "sam_apx_1000"]
ASSUMPTIONS = [
    "exact real arithmetic; game values unconstrained (any class) except: sam_apx_100 / sam_apx_1000 are run under SAM(v) at n=3 only "
    "(for unconstrained values the closure need not converge and terms grow with the repetition count)",
    "two game objects with independent free stale lower/upper values for every unknown coalition",
    "l2 gap: SQ/SQRT uninterpreted with instantiated axioms (equality by congruence)",
]
OUTSIDE = ["float rounding", "n>=5", "sam_apx_100/1000 beyond n=3 or outside SAM games", "histories longer than the listed reveal orders "
           "(covered inductively by the free stale state + C17)"]
STUBS = ["np proxy", "SymArray reductions", "np.linalg.norm model", "game generator stub returning the symbolic hidden game"]


def bounds_text(tier):
    if tier == "quick":
        return ("stale-independence + idempotence: n=3 all K x 6 computers, n=4 all K x {SA, SA-cached, sam_apx_1}, 10 K x sam_apx_10; "
                "reveal orders: n=3 all K, n=4 96 K; env step/unstep: n=3 all states x 4 gaps x 3 computers, n=4 24 states")
    return "as quick with n=4 all K for orders (3 computers), 256 K for sam_apx_10, env undo on 256 states at n=4"


def tasks(tier, seed):
    out = []

    def add(kind, n, K, comp, **kw):
        d = {"key": f"{kind}/n{n}/{comp}/K={','.join(map(str, K))}" + "".join(f"/{k}={v}" for k, v in sorted(kw.items())),
             "kind": kind, "n": n, "K": K, "computer": comp}
        d.update(kw)
        out.append(d)
    fam3, _ = F.family(3, tier, seed)
    fam4, _ = F.family(4, tier, seed)
    add("stale", 3, [], "superadditive_cached")
    add("order", 3, [], "superadditive_cached")
    add("env", 3, [], "superadditive_cached", gap="exploitability", action=0)
    for comp in COMPUTERS:
        for K in fam3:
            if comp == "sam_apx_1000" and tier == "quick" and len(K) not in (0, 1):
                continue
            add("stale", 3, K, comp)
    for comp in COMPUTERS[:3]:
        for K in fam4:
            add("stale", 4, K, comp)
    for K in F.sample(fam4, 256 if tier == "thorough" else 10, seed, "c08r10"):
        add("stale", 4, K, "sam_apx_10")
    # nine players (coalition ids need more than one byte), minimal knowledge: at minimal knowledge every split of a coalition is the
    # same linear term, so the run stays small for the plain superadditive computers
    add("stale", 9, [], "superadditive_cached", timeout_ms=1500, max_task_s=150)
    if tier == "thorough":
        add("stale", 9, [], "superadditive", timeout_ms=1500, max_task_s=150)
    for comp in COMPUTERS[:4]:
        for K in fam3:
            add("order", 3, K, comp)
    for comp in COMPUTERS[:3]:
        for K in (fam4 if tier == "thorough" else F.sample(fam4, 96, seed, "c08ord")):
            add("order", 4, K, comp)
    # seeded operation histories on one object (harness/histories.py) against a fresh object with the same final knowledge
    for comp in COMPUTERS[:4]:
        for K in fam3:
            for j in range(2 if tier == "quick" else 5):
                add("ops", 3, K, comp, ops=f"ops{j}")
    for comp in COMPUTERS[:3]:
        for K in F.sample([k for k in fam4 if len(k) < len(F.extras(4))], 32 if tier == "quick" else 200, seed, "c08ops"):
            add("ops", 4, K, comp, ops="ops0")
    # several registered computers used in ONE process on bit-identical knowledge: each must still give ITS bounds (for the two plain
    # superadditive computers the reference is the closed form of the definition; hidden game superadditive, not necessarily monotone)
    for first in ("sam_apx_1", "sam_apx_10", "superadditive"):
        for second in ("superadditive", "superadditive_cached"):
            if first == second:
                continue
            for K in fam3:
                add("cross", 3, K, second, first=first)
            for K in F.sample([k for k in fam4 if len(k) < len(F.extras(4))], 12 if tier == "quick" else 100, seed, "c08cross"):
                add("cross", 4, K, second, first=first)
    # environment undo
    for comp in ["superadditive", "superadditive_cached", "sam_apx_1"]:
        for gap in ["exploitability", "l1_norm", "l2_norm", "linf_norm"]:
            for K in fam3:
                unk = [S for S in F.extras(3) if S not in K]
                for a in unk:
                    add("env", 3, K, comp, gap=gap, action=F.extras(3).index(a))
    # out-of-order undo: step(a), step(b), unstep(a) must equal an environment that only did step(b)
    rnd2 = random.Random(f"c08env2/{seed}")
    for comp in ["superadditive", "superadditive_cached", "sam_apx_1"]:
        for K in fam3:
            unk = [S for S in F.extras(3) if S not in K]
            for a in unk:
                for b in unk:
                    if a != b:
                        add("env2", 3, K, comp, gap=rnd2.choice(["exploitability", "l1_norm", "linf_norm"]),
                            action=F.extras(3).index(a), action2=F.extras(3).index(b))
    for K in F.sample([k for k in fam4 if len(k) < 9], 128 if tier == "thorough" else 24, seed, "c08env24"):
        unk = [S for S in F.extras(4) if S not in K]
        a, b = rnd2.sample(unk, 2)
        add("env2", 4, K, rnd2.choice(["superadditive_cached", "superadditive"]), gap=rnd2.choice(["exploitability", "l1_norm"]),
            action=F.extras(4).index(a), action2=F.extras(4).index(b))
    rnd = random.Random(f"c08env/{seed}")
    for K in F.sample([k for k in fam4 if len(k) < 10], 256 if tier == "thorough" else 24, seed, "c08env4"):
        unk = [S for S in F.extras(4) if S not in K]
        a = rnd.choice(unk)
        add("env", 4, K, rnd.choice(["superadditive_cached", "superadditive"]),
            gap=rnd.choice(["exploitability", "l1_norm", "linf_norm"]), action=F.extras(4).index(a))
    return out


def _v(params, inp):
    n = params["n"]
    return [inp.const(0)] + [inp.real(f"v{S}") for S in range(1, 2 ** n)]


def _needs_sam(params):
    return params["computer"] in ("sam_apx_100", "sam_apx_1000")


def setup(params, inp, lg):
    n = params["n"]
    v = _v(params, inp)
    known = set(F.minimal(n)) | set(params["K"])
    if params["kind"] == "stale":
        for S in range(2 ** n):
            if S not in known:
                for who in "pq":
                    inp.real(f"{who}L{S}")
                    inp.real(f"{who}U{S}")
    if params["kind"] == "ops":
        for nm in H.stale_names(H.plan(n, params["K"], params["ops"])):
            inp.real(nm)
    if _needs_sam(params):
        return F.sam_constraints(v, n, lg)
    if params["kind"] == "cross":
        # the closed form is the definition of the bounds for superadditive known values (for other values a known coalition's own
        # value and its best partition differ, and the definition says nothing)
        return F.sa_constraints(v, n, lg)
    return []


def _read(pk, g, n):
    C = pk.coalitions.Coalition
    return {"L": [g.get_lower_bound(C(S)) for S in range(2 ** n)],
            "U": [g.get_upper_bound(C(S)) for S in range(2 ** n)],
            "known": [bool(g.is_value_known(C(S))) for S in range(2 ** n)]}


def _vec(pk, vals):
    import numpy as np
    a = np.empty(len(vals), dtype=object if pk.symbolic else float)
    for i, x in enumerate(vals):
        a[i] = x
    return a


def _full_game(pk, n, v):
    import numpy as np
    g = pk.game.IncompleteCooperativeGame(n)
    a = np.empty(2 ** n, dtype=object if pk.symbolic else float)
    for i, x in enumerate(v):
        a[i] = x
    g.set_values(a)
    return g


def gap_functions(pk):
    return {"exploitability": pk.exploitability.compute_exploitability, "l1_norm": pk.norms.l1_norm,
            "l2_norm": pk.norms.l2_norm, "linf_norm": pk.norms.linf_norm}


def scenario(pk, params, inp):
    n = params["n"]
    C = pk.coalitions.Coalition
    comp = pk.bounds.BOUNDS[params["computer"]]
    v = _v(params, inp)
    known = sorted(set(F.minimal(n)) | set(params["K"]))
    unknown = [S for S in range(2 ** n) if S not in set(known)]
    if params["kind"] == "stale":
        res = {}
        for who in "pq":
            g = pk.game.IncompleteCooperativeGame(n, comp)
            g.set_known_values([v[S] for S in known], [C(S) for S in known])
            for S in unknown:
                g.set_lower_bound(inp.real(f"{who}L{S}"), C(S))
                g.set_upper_bound(inp.real(f"{who}U{S}"), C(S))
            g.compute_bounds()
            res[who] = _read(pk, g, n)
            if who == "p":
                g.compute_bounds()
                res["p2"] = _read(pk, g, n)
        return res
    if params["kind"] == "cross":
        g1 = pk.game.IncompleteCooperativeGame(n, pk.bounds.BOUNDS[params["first"]])
        g1.set_known_values([v[S] for S in known], [C(S) for S in known])
        g1.compute_bounds()
        g2 = pk.game.IncompleteCooperativeGame(n, comp)
        g2.set_known_values([v[S] for S in known], [C(S) for S in known])
        g2.compute_bounds()
        return {"second": _read(pk, g2, n)}
    if params["kind"] == "ops":
        direct = pk.game.IncompleteCooperativeGame(n, comp)
        direct.set_known_values([v[S] for S in known], [C(S) for S in known])
        direct.compute_bounds()
        g = H.apply(pk, pk.game.IncompleteCooperativeGame(n, comp), v, H.plan(n, params["K"], params["ops"]), inp)
        g.compute_bounds()
        res = {"direct": _read(pk, direct, n), "hist": _read(pk, g, n)}
        g.compute_bounds()
        res["hist2"] = _read(pk, g, n)
        return res
    if params["kind"] == "order":
        rnd = random.Random(params["key"])
        direct = pk.game.IncompleteCooperativeGame(n, comp)
        direct.set_known_values([v[S] for S in known], [C(S) for S in known])
        direct.compute_bounds()
        res = {"direct": _read(pk, direct, n)}
        extra = list(params["K"])
        for tag in ("fwd", "rev", "detour", "bulk"):
            g = pk.game.IncompleteCooperativeGame(n, comp)
            mini = F.minimal(n)
            g.set_known_values([v[S] for S in mini], [C(S) for S in mini])
            g.compute_bounds()
            if tag == "bulk":
                # reach K through the BULK setter on a game that already carries computed bounds
                if extra:
                    half = extra[: max(1, len(extra) // 2)]
                    g.set_values(_vec(pk, [v[S] for S in half]), [C(S) for S in half])
                    g.compute_bounds()
                    rest = [S for S in extra if S not in half]
                    if rest:
                        g.set_values(_vec(pk, [v[S] for S in rest]), iter([C(S) for S in rest]))
                        g.compute_bounds()
                res[tag] = _read(pk, g, n)
                continue
            order = list(extra) if tag == "fwd" else list(reversed(extra))
            if tag == "detour":
                rnd.shuffle(order)
            det = unknown[rnd.randrange(len(unknown))] if (tag == "detour" and unknown) else None
            for j, S in enumerate(order):
                g.reveal_value(v[S], C(S))
                g.compute_bounds()
                if det is not None and j == len(order) // 2:
                    g.reveal_value(v[det], C(det))
                    g.compute_bounds()
                    g.unreveal_value(C(det))
                    g.compute_bounds()
            if det is not None and not order:
                g.reveal_value(v[det], C(det))
                g.compute_bounds()
                g.unreveal_value(C(det))
                g.compute_bounds()
            res[tag] = _read(pk, g, n)
        return res
    # env: step then unstep restores everything
    full = _full_game(pk, n, v)
    gap = gap_functions(pk)[params["gap"]]
    game = pk.game.IncompleteCooperativeGame(n, comp)
    env = pk.icg_gym.ICG_Gym(game, lambda: full.copy(), [C(S) for S in F.minimal(n)], gap)
    ex = [c.id for c in env.explorable_coalitions]
    for S in params["K"]:
        env.step(ex.index(S))

    def snap():
        return {"table": _read(pk, env.incomplete_game, n), "state": list(env.state), "reward": env.reward,
                "mask": [bool(x) for x in env.action_masks()], "steps": int(env.steps_taken), "done": bool(env.done)}
    if params["kind"] == "env2":
        env.step(params["action"])
        env.step(params["action2"])
        env.unstep(params["action"])
        got = snap()
        game2 = pk.game.IncompleteCooperativeGame(n, comp)
        env = pk.icg_gym.ICG_Gym(game2, lambda: full.copy(), [C(S) for S in F.minimal(n)], gap)
        for S in params["K"]:
            env.step(ex.index(S))
        env.step(params["action2"])
        want = snap()
        want["steps"] = got["steps"]          # step counters legitimately differ by construction
        return {"before": want, "mid": {"known_count": len(F.minimal(n)) + len(params["K"]) + 1}, "after": got}
    before = snap()
    env.step(params["action"])
    mid = {"known_count": int(sum(env.incomplete_game.are_values_known()))}
    env.unstep(params["action"])
    after = snap()
    return {"before": before, "mid": mid, "after": after}


def _eq_tables(lg, a, b, n, tag):
    cl = []
    for S in range(2 ** n):
        cl.append((f"{tag}:S={S}", lg.And(lg.eq(a["L"][S], b["L"][S]), lg.eq(a["U"][S], b["U"][S]),
                                          a["known"][S] == b["known"][S])))
    return cl


def claims(params, inp, out, lg):
    n = params["n"]
    if params["kind"] == "stale":
        return _eq_tables(lg, out["p"], out["q"], n, "stale-independent") + \
            _eq_tables(lg, out["p"], out["p2"], n, "idempotent")
    if params["kind"] == "cross":
        v = _v(params, inp)
        known = set(F.minimal(n)) | set(params["K"])
        zero = lg.const(0)
        cl = []
        for S in range(2 ** n):
            if S in known:
                continue
            cl.append((f"own-bounds-after-another-computer:S={S}", lg.And(lg.eq(out["second"]["L"][S], F.lref(known, S, v, zero)),
                                                                        lg.eq(out["second"]["U"][S], F.uref(known, S, v, n, zero))),
                       "C08/bounds-of-another-computer"))
        return cl
    if params["kind"] == "ops":
        return _eq_tables(lg, out["direct"], out["hist"], n, "history-free") + _eq_tables(lg, out["hist"], out["hist2"], n, "idempotent")
    if params["kind"] == "order":
        cl = []
        for tag in ("fwd", "rev", "detour", "bulk"):
            cl += _eq_tables(lg, out["direct"], out[tag], n, f"order-free-{tag}")
        return cl
    b, a = out["before"], out["after"]
    cl = _eq_tables(lg, b["table"], a["table"], n, "undo-table")
    cl.append(("undo-state", lg.And([lg.eq(x, y) for x, y in zip(b["state"], a["state"])])))
    cl.append(("undo-reward", lg.eq(b["reward"], a["reward"])))
    cl.append(("undo-mask", b["mask"] == a["mask"]))
    cl.append(("undo-steps", b["steps"] == a["steps"]))
    if params["kind"] == "env":
        cl.append(("undo-done", b["done"] == a["done"]))
    cl.append(("step-revealed-one", out["mid"]["known_count"] == len(F.minimal(n)) + len(params["K"]) + 1))
    return cl


def canaries(params, inp, out, lg):
    n = params["n"]
    if params["kind"] == "stale":
        unk = [S for S in F.extras(n) if S not in params["K"]]
        if not unk:
            return []
        S = unk[0]
        return [(f"canary-result-is-stale:S={S}", lg.eq(out["p"]["L"][S], inp.real(f"pL{S}")))]
    if params["kind"] == "cross":
        return []
    if params["kind"] in ("order", "ops"):
        return [("canary-upper-equals-lower", lg.And([lg.eq(out["direct"]["L"][S], out["direct"]["U"][S]) for S in range(2 ** n)]))]
    return [("canary-reward-positive", lg.gt(out["before"]["reward"], 1))]


def test_vectors(params):
    n = params["n"]
    rnd = random.Random(params["key"])
    vecs = []
    games = F.sam_test_games(n, 3, 2) if _needs_sam(params) or params["computer"].startswith("sam") else F.sa_test_games(n, 3, 3)
    for g in games:
        d = {f"v{S}": g[S] for S in range(1, 2 ** n)}
        for S in range(2 ** n):
            for who in "pq":
                d[f"{who}L{S}"] = Fraction(rnd.randint(-40, 40), 4)
                d[f"{who}U{S}"] = Fraction(rnd.randint(-40, 40), 4)
        for k in range(12):
            d[f"hs{k}L"] = Fraction(rnd.randint(-40, 40), 4)
            d[f"hs{k}U"] = Fraction(rnd.randint(-40, 40), 4)
        vecs.append(d)
    return vecs
