"""C14 — regret minimiser: constructible at every size; strategies are valid distributions."""
from __future__ import annotations

import itertools
import random
from fractions import Fraction

from . import families as F

ID = "C14"
HEAVY = False
BUDGET_S = {"quick": 230, "thorough": 3000}
TIMEOUT_MS = {"quick": 20000, "thorough": 120000}
MAX_TASK_S = {"quick": 100, "thorough": 1200}
ASSUMPTIONS = [
    "exact real arithmetic (the float32 storage of the tables is not modelled; equalities that involve the package's own float constants "
    "are asserted with a 1e-9 relative tolerance)",
    "constructibility / ranking: the real constructor is executed for the listed (players, limit) pairs and the two ranking tables are checked "
    "on the concrete result (no symbolic domain: reachability of the set-up; an exception is a violation)",
    "save/load: after a concrete prefix the minimiser is saved (real params.json on a scratch directory; np.save/np.load = array store), loaded, "
    "and original and loaded both run one iteration with one more concrete iteration and then one with FREE non-negative losses: all tables / strategies z3-equal",
    "iterations: pre-state = the state reached by k0 in {0,1,2} real iterations with concrete non-negative loss vectors from a listed set; then ONE "
    "iteration whose terminal losses are free non-negative reals (so every claim is decided for all loss vectors of that last iteration)",
]
OUTSIDE = ["the .npy byte format (np.save / np.load are replaced by an array store with the round-trip contract; params.json is real)", "float32 rounding", "pre-states not reached by the listed concrete prefixes "
           "(no unbounded induction: a fully symbolic pre-state makes the query nonlinear and did not finish)", "n=5 beyond construction and ranking", "n=4 limits > 2 for iterations"]
STUBS = ["np proxy", "SymArray", "np.save/np.load array store (symbolic world; the float64 replay uses the real ones on a scratch directory)"]


def bounds_text(tier):
    if tier == "quick":
        return ("construction+ranking: n=3 limits 1..4, n=4 limits 1,2,3,9,10,11, n=5 limits 1,2,4,5 (68 406 coalition sets: more than 16 bits of ranks); iterations: n=3 limits 1..3 x plain/plus x 13 concrete prefixes "
                "of length <=2 + one symbolic iteration; n=4 limit 1 first iteration")
    return "construction+ranking also n=5 limit 3; iterations: n=3 x 40 prefixes of length <=3; n=4 limits 1,2 x 6 prefixes"


def tasks(tier, seed):
    out = []
    grid = [(3, 1), (3, 2), (3, 3), (3, 4), (4, 1), (4, 2), (4, 3), (4, 9), (4, 10), (4, 11), (5, 1), (5, 2), (5, 4), (5, 5)] + ([(5, 3), (5, 6)] if tier == "thorough" else [])
    for n, lim in grid:
        out.append({"key": f"construct/n{n}/limit{lim}", "kind": "construct", "n": n, "limit": lim})
    rnd = random.Random(f"c14/{seed}")
    base = [[1, 0, 0], [0, 1, 0], [0, 0, 1], [1, 2, 0], [0, 3, 1], [2, 2, 2], [0, 0, 0]]

    def prefixes(n_term, count):
        pf = [[]] + [[b[:n_term] + [0] * max(0, n_term - 3)] for b in base[:4]]
        for a, b in itertools.product(base[:5], base[:5]):
            pf.append([a[:n_term] + [0] * max(0, n_term - 3), b[:n_term] + [0] * max(0, n_term - 3)])
        fixed = pf[:5] + [pf[6], pf[7], pf[11], pf[12]]          # includes [e1],[e1,e2]: zero-reach nodes appear
        rest = [p for p in pf if p not in fixed]
        rnd.shuffle(rest)
        return fixed + rest[: max(0, count - len(fixed))]
    out.insert(0, {"key": "iterate/n3/limit2/plus/prefix=[[1,0,0]]", "kind": "iterate", "n": 3, "limit": 2, "plus": True, "prefix": [[1, 0, 0]], "canary": True})
    for lim in (1, 2, 3):
        nterm = {1: 3, 2: 3, 3: 1}[lim]
        for plus in (False, True):
            for pf in prefixes(nterm, 13 if tier == "quick" else 40):
                if lim == 2 and plus and pf == [[1, 0, 0]]:
                    continue
                out.append({"key": f"iterate/n3/limit{lim}/{'plus' if plus else 'plain'}/prefix={pf}", "kind": "iterate", "n": 3, "limit": lim,
                            "plus": plus, "prefix": pf})
    # reveal limits ABOVE the number of viable coalitions ("every reveal limit >= 1")
    for n_, lim in ((3, 4), (3, 6), (4, 11)) if tier == "quick" else ((3, 4), (3, 5), (3, 6), (4, 11), (4, 12)):
        for plus in (False, True):
            out.append({"key": f"iterate/n{n_}/limit{lim}/{'plus' if plus else 'plain'}/prefix=[]/above", "kind": "iterate", "n": n_, "limit": lim,
                        "plus": plus, "prefix": []})
    # iterations that list only PART of the terminal nodes, run on a minimiser and on its saved-then-loaded twin
    for n_, lim, pf in ((3, 1, [[1, 2, 0]]), (3, 2, [[1, 0, 2], [0, 3, 1]]), (3, 2, []), (4, 1, [[1] * 10])):
        for plus in (False, True):
            out.append({"key": f"partial/n{n_}/limit{lim}/{'plus' if plus else 'plain'}/prefix#{len(pf)}", "kind": "partial", "n": n_, "limit": lim,
                        "plus": plus, "prefix": pf})
    # a saved-then-loaded minimiser continues identically (np.save / np.load replaced by an array store, see STUBS)
    sl = [(3, 1, [[1, 0, 0]]), (3, 2, [[1, 0, 0], [0, 3, 1]]), (3, 2, []), (3, 3, [[2]]), (3, 4, [[1]]), (4, 1, [[1] + [0] * 9])]
    if tier == "thorough":
        sl += [(3, 2, [[1, 2, 0], [0, 0, 1], [2, 2, 2]]), (3, 1, [[0, 0, 0]]), (4, 2, [[0, 2] + [1] * 43]), (4, 11, [[3]])]
    for n_, lim, pf in sl:
        for plus in (False, True):
            out.append({"key": f"saveload/n{n_}/limit{lim}/{'plus' if plus else 'plain'}/prefix#{len(pf)}", "kind": "saveload", "n": n_, "limit": lim,
                        "plus": plus, "prefix": pf})
    for lim in ((1,) if tier == "quick" else (1, 2)):
        for plus in (False, True):
            nterm = 10 if lim == 1 else 45
            pfs = [[]] if tier == "quick" else [[], [[1] + [0] * (nterm - 1)], [[0, 2] + [1] * (nterm - 2)]]
            for pf in pfs:
                out.append({"key": f"iterate/n4/limit{lim}/{'plus' if plus else 'plain'}/prefix#{len(pf)}", "kind": "iterate", "n": 4, "limit": lim,
                            "plus": plus, "prefix": pf})
    return out


def _nterm(n, limit):
    from math import comb
    nc = 2 ** n - n - 2
    return comb(nc, min(limit, nc))


def setup(params, inp, lg):
    if params["kind"] not in ("iterate", "saveload", "partial"):
        return []
    return [lg.ge(inp.real(f"t{i}"), 0) for i in range(_nterm(params["n"], params["limit"]))]


def _bottom(pk, n, limit):
    """Action lists (coalitions of the original game) of the bottom layer, in rank order."""
    C = pk.coalitions.Coalition
    viable = [S for S in range(2 ** n) if F.popcount(S) not in (0, 1, n)]
    nc = len(viable)
    k = min(limit, nc)
    return [[C(viable[i]) for i in combo] for combo in itertools.combinations(range(nc), k)], viable


def scenario(pk, params, inp):
    import numpy as np
    n, limit = params["n"], params["limit"]
    R = pk.regret
    if params["kind"] == "construct":
        m = R.GameRegretMinimizer(n, limit)
        r2i = [int(x) for x in m.meta_rank_to_id]
        back = [int(m.meta_id_to_rank[i]) for i in r2i]
        plus = R.GameRegretMinimizer(n, limit, plus=True)
        return {"viable": int(m.viable_metacoalitions), "rank_to_id": r2i, "id_to_rank_of_rank_to_id": back,
                "minimizers": int(m.number_of_regret_minimizers), "coalitions": int(m.number_of_coalitions),
                "regret_shape": list(m.cumulative_regret.shape), "plus_flag": bool(plus.plus)}
    if params["kind"] == "saveload":
        return _saveload(pk, params, inp)
    if params["kind"] == "partial":
        return _partial(pk, params, inp)
    m = R.GameRegretMinimizer(n, limit, plus=params["plus"])
    bottom, viable = _bottom(pk, n, limit)
    nt = len(bottom)
    for pf in params["prefix"]:
        m.regret_min_iteration(np.array([inp.const(x) if pk.symbolic else float(x) for x in pf], dtype=object if pk.symbolic else float), bottom)
    nrm = int(m.number_of_regret_minimizers)
    before_reg = [[m.cumulative_regret[r][a] for a in range(m.number_of_coalitions)] for r in range(nrm)]
    played = [list(m.regret_matching_strategy(int(m.meta_rank_to_id[r]))) for r in range(nrm)]
    t = np.empty(nt, dtype=object if pk.symbolic else float)
    for i in range(nt):
        t[i] = inp.real(f"t{i}")
    m.regret_min_iteration(t, [iter(b) for b in bottom] if len(params["prefix"]) % 2 else bottom)
    after_reg = [[m.cumulative_regret[r][a] for a in range(m.number_of_coalitions)] for r in range(nrm)]
    cur = [list(m.regret_matching_strategy(int(m.meta_rank_to_id[r]))) for r in range(nrm)]
    nodes = []
    for r in range(nrm):
        mid = int(m.meta_rank_to_id[r])
        used_pids = [i for i in range(m.number_of_coalitions) if mid >> i & 1]
        path = [pk.coalitions.Coalition(viable[i]) for i in used_pids]
        avg = list(m.get_average_strategy(path))
        avg_it = list(m.get_average_strategy(iter(path)))                 # Iterable[Coalition]: a one-shot iterator is legitimate
        cur_it = list(m.regret_matching_strategy(c for c in path))
        nodes.append({"rank": r, "meta": mid, "used": used_pids, "avg": avg, "avg_it": avg_it, "cur_it": cur_it, "cum_strategy": [m.cumulative_strategy[r][a] for a in range(m.number_of_coalitions)]})
    return {"viable_ids": viable, "before_reg": before_reg, "after_reg": after_reg, "played": played, "cur": cur, "nodes": nodes,
            "iteration": int(m.iteration)}


class _ArrayStore:
    """Symbolic world only: np.save / np.load inside regret.py.  Contract: what np.save wrote is what np.load returns (shape, values; a
    copy, never an alias - unless the caller asks for a read-write memory map, which IS the file); '.npy' is appended when missing;
    loading what was never saved raises FileNotFoundError."""

    def __init__(self):
        self.files = {}

    @staticmethod
    def _name(path):
        import os
        p = os.fspath(path)
        return p if p.endswith(".npy") else p + ".npy"

    def save(self, path, arr, *a, **k):
        import numpy as np
        from symx.arrays import SymArray
        self.files[self._name(path)] = np.array(np.asarray(arr).view(np.ndarray), dtype=object, copy=True).view(SymArray)
        open(self._name(path), "wb").close()

    def load(self, path, mmap_mode=None, *a, **k):
        import os
        p = os.fspath(path)
        if p not in self.files:
            raise FileNotFoundError(p)
        if mmap_mode in ("r+", "w+"):
            return self.files[p]             # memory-mapped read-write: the array IS the file, in-place updates are written through
        arr = self.files[p].copy()
        if mmap_mode == "r":
            arr.flags.writeable = False      # read-only mapping: an in-place update raises, like numpy's memmap
        return arr                            # None / 'c' (copy-on-write): private copy


def _snapshot(pk, m, viable):
    nrm = int(m.number_of_regret_minimizers)
    nodes = []
    for r in range(nrm):
        mid = int(m.meta_rank_to_id[r])
        used_pids = [i for i in range(m.number_of_coalitions) if mid >> i & 1]
        path = [pk.coalitions.Coalition(viable[i]) for i in used_pids]
        nodes.append({"cur": list(m.regret_matching_strategy(int(mid))), "avg": list(m.get_average_strategy(path)),
                      "reg": [m.cumulative_regret[r][a] for a in range(m.number_of_coalitions)],
                      "cum": [m.cumulative_strategy[r][a] for a in range(m.number_of_coalitions)]})
    return {"iteration": int(m.iteration), "plus": bool(m.plus), "players": int(m.number_of_players), "limit": int(m.limit_of_revealed),
            "minimizers": nrm, "nodes": nodes}


def _saveload(pk, params, inp):
    import shutil
    import tempfile
    from pathlib import Path

    import numpy as np
    n, limit = params["n"], params["limit"]
    R = pk.regret
    if pk.symbolic:
        store = _ArrayStore()
        R.np.save, R.np.load = store.save, store.load
    bottom, viable = _bottom(pk, n, limit)
    nt = len(bottom)

    def conc(pf):
        return np.array([inp.const(x) if pk.symbolic else float(x) for x in pf], dtype=object if pk.symbolic else float)
    t = np.empty(nt, dtype=object if pk.symbolic else float)
    for i in range(nt):
        t[i] = inp.real(f"t{i}")
    root = tempfile.mkdtemp(prefix="c14_")
    try:
        m = R.GameRegretMinimizer(n, limit, plus=params["plus"])
        for pf in params["prefix"]:
            m.regret_min_iteration(conc(pf), bottom)
        m.save(Path(root) / "rm" / "nested")
        at_save = _snapshot(pk, m, viable)
        loaded = R.GameRegretMinimizer.load(Path(root) / "rm" / "nested")
        at_load = _snapshot(pk, loaded, viable)
        # both continue with one more concrete iteration and then the symbolic one (the plus variant weighs by the iteration count);
        # the symbolic iteration comes last so that every term stays linear in the free losses
        for g in (m, loaded):
            g.regret_min_iteration(conc([(i % 3) + 1 for i in range(nt)]), bottom)
            g.regret_min_iteration(t.copy(), bottom)
        cont_orig, cont_loaded = _snapshot(pk, m, viable), _snapshot(pk, loaded, viable)
        # the files describe the moment of the save: the original moving on must not change what a later load returns,
        # and a second save into the same directory replaces the first
        again = _snapshot(pk, R.GameRegretMinimizer.load(Path(root) / "rm" / "nested"), viable)
        m.save(Path(root) / "rm" / "nested")
        latest = _snapshot(pk, R.GameRegretMinimizer.load(Path(root) / "rm" / "nested"), viable)
    finally:
        shutil.rmtree(root, ignore_errors=True)
    return {"at_save": at_save, "at_load": at_load, "cont_orig": cont_orig, "cont_loaded": cont_loaded, "again": again, "latest": latest}


def _partial(pk, params, inp):
    """A minimiser and its saved-then-loaded twin continue with iterations that list only PART of the terminal nodes: whatever an
    iteration leaves behind that is not in the save files (scratch tables, caches) must not matter."""
    import shutil
    import tempfile
    from pathlib import Path

    import numpy as np
    n, limit = params["n"], params["limit"]
    R = pk.regret
    if pk.symbolic:
        store = _ArrayStore()
        R.np.save, R.np.load = store.save, store.load
    bottom, viable = _bottom(pk, n, limit)
    nt = len(bottom)

    def conc(pf):
        return np.array([inp.const(x) if pk.symbolic else float(x) for x in pf], dtype=object if pk.symbolic else float)
    root = tempfile.mkdtemp(prefix="c14p_")
    try:
        m = R.GameRegretMinimizer(n, limit, plus=params["plus"])
        for pf in params["prefix"] or [[(i % 2) + 1 for i in range(nt)]]:
            m.regret_min_iteration(conc(pf), bottom)
        m.save(Path(root) / "rm")
        twin = R.GameRegretMinimizer.load(Path(root) / "rm")
    finally:
        shutil.rmtree(root, ignore_errors=True)
    # first a CONCRETE partial call listing the odd-ranked terminal nodes, then the call with FREE losses listing the even-ranked ones
    # (last, so that every term stays linear in the free losses)
    other = [i for i in range(nt) if i % 2 == 1]
    listed = [i for i in range(nt) if i % 2 == 0]
    t_part = np.empty(len(listed), dtype=object if pk.symbolic else float)
    for j, i in enumerate(listed):
        t_part[j] = inp.real(f"t{i}")
    for g in (m, twin):
        if other:
            g.regret_min_iteration(conc([(i % 3) + 1 for i in other]), [bottom[i] for i in other])
        g.regret_min_iteration(t_part.copy(), [bottom[i] for i in listed])
    return {"partial": _snapshot(pk, m, viable), "full": _snapshot(pk, twin, viable)}


def _snap_equal(lg, a, b, tol=None):
    if any(a[k] != b[k] for k in ("iteration", "plus", "players", "limit", "minimizers")) or len(a["nodes"]) != len(b["nodes"]):
        return False
    parts = []
    for x, y in zip(a["nodes"], b["nodes"]):
        for k in ("cur", "avg", "reg", "cum"):
            if len(x[k]) != len(y[k]):
                return False
            parts += [lg.eq(p, q) for p, q in zip(x[k], y[k])]
    return lg.And(parts)


def claims(params, inp, out, lg):
    from math import comb
    if params["kind"] == "partial":
        return [("loaded-twin-continues-identically-under-partial-listings", _snap_equal(lg, out["partial"], out["full"]), "C14/partial-listing")]
    if params["kind"] == "saveload":
        return [("loaded-equals-saved", _snap_equal(lg, out["at_save"], out["at_load"]), "C14/saveload/loaded-differs"),
                ("loaded-continues-identically", _snap_equal(lg, out["cont_orig"], out["cont_loaded"]), "C14/saveload/continues-differently"),
                ("files-describe-the-moment-of-the-save", _snap_equal(lg, out["at_save"], out["again"]), "C14/saveload/aliased"),
                ("second-save-replaces-the-first", _snap_equal(lg, out["cont_orig"], out["latest"]), "C14/saveload/stale-after-resave")]
    n, limit = params["n"], params["limit"]
    nc = 2 ** n - n - 2
    cl = []
    if params["kind"] == "construct":
        k = min(limit, nc)
        want = sum(comb(nc, s) for s in range(k + 1))
        r2i = out["rank_to_id"]
        cl.append(("all-coalition-sets-up-to-limit-once", out["viable"] == want and sorted(r2i) == sorted(
            sum(1 << i for i in c) for s in range(k + 1) for c in itertools.combinations(range(nc), s))))
        cl.append(("ranking-is-a-bijection", out["id_to_rank_of_rank_to_id"] == list(range(len(r2i)))))
        cl.append(("ranking-ordered-by-set-size", all(F.popcount(r2i[i]) <= F.popcount(r2i[i + 1]) for i in range(len(r2i) - 1))))
        # internal nodes = coalition sets that can still be extended: fewer than min(limit, #coalitions) members
        cl.append(("one-minimiser-per-internal-node", out["minimizers"] == sum(comb(nc, s) for s in range(min(limit, nc)))
                   and out["regret_shape"] == [out["minimizers"], nc] and out["coalitions"] == nc))
        return cl
    zero, one = lg.const(0), lg.const(1)
    tol = 1e-9
    viable = out["viable_ids"]
    for node in out["nodes"]:
        r, used = node["rank"], node["used"]
        for tag, vec in (("current", out["cur"][r]), ("played", out["played"][r])):
            s = zero
            for x in vec:
                s = s + x
            cl.append((f"{tag}-strategy-is-a-distribution:node={r}", lg.And(lg.close(s, one, tol), [lg.ge(x, zero) for x in vec])))
            cl.append((f"{tag}-strategy-avoids-revealed:node={r}", lg.And([lg.eq(vec[a], zero) for a in used])))
        avg = node["avg"]
        s = zero
        for x in avg:
            s = s + x
        cl.append((f"average-strategy-is-a-distribution:node={r}", lg.And(lg.close(s, one, tol), [lg.ge(x, zero) for x in avg], len(avg) == 2 ** n)))
        cl.append((f"average-strategy-only-on-viable-unrevealed:node={r}",
                   lg.And([lg.eq(avg[S], zero) for S in range(2 ** n) if S not in viable or viable.index(S) in used])))
        cl.append((f"iterator-argument-gives-the-same-node:node={r}", lg.And([lg.eq(a, b) for a, b in zip(node["avg_it"], avg)],
                                                                             [lg.eq(a, b) for a, b in zip(node["cur_it"], out["cur"][r])])))
        if not params["plus"]:
            dot = zero
            for a in range(nc):
                dot = dot + out["played"][r][a] * (out["after_reg"][r][a] - out["before_reg"][r][a])
            cl.append((f"added-regret-orthogonal-to-played-strategy:node={r}", lg.close(dot, zero, tol)))
        else:
            cl.append((f"plus-keeps-regret-nonnegative:node={r}", lg.And([lg.ge(x, zero) for x in out["after_reg"][r]])))
        cl.append((f"cumulative-strategy-nonnegative:node={r}", lg.And([lg.ge(x, zero) for x in node["cum_strategy"]])))
    cl.append(("iteration-counted", out["iteration"] == len(params["prefix"]) + 1))
    return cl


def canaries(params, inp, out, lg):
    if params["kind"] == "partial":
        return []
    if params["kind"] == "saveload":
        # false on purpose: continuing would have to change nothing
        return [("canary-continuing-changes-nothing", _snap_equal(lg, out["at_save"], out["cont_orig"]))]
    if params["kind"] != "iterate":
        return []
    # false on purpose: the root's current strategy would have to stay uniform after any iteration
    root = out["cur"][0]
    return [("canary-root-stays-uniform", lg.And([lg.close(x, root[0], 1e-9) for x in root if True]))]


CANARY_TASKS = 1
# the unpatched package stores the regret / strategy tables as float32 (RMValue): the float run differs from the exact terms by
# float32 rounding (~1e-7 relative per operation), so the term-by-term cross-check uses a float32-sized tolerance
XCHECK_TOL = 5e-5


def signature(params, v):
    fam = v["name"].split(":")[0]
    info = v.get("info") or {}
    if v["status"] == "exception":
        return f"C14/{params['kind']}/exception/{info.get('type')}"
    return f"C14/{params['kind']}/{fam}"


def test_vectors(params):
    if params["kind"] not in ("iterate", "saveload", "partial"):
        return []
    rnd = random.Random(params["key"])
    nt = _nterm(params["n"], params["limit"])
    return [{f"t{i}": Fraction(rnd.randint(0, 16), 4) for i in range(nt)} for _ in range(3)]
