"""C18 — coalitions are finite sets in both representations; predicates match their definitions."""
from __future__ import annotations

import random
from fractions import Fraction

from . import families as F

ID = "C18"
HEAVY = False
BUDGET_S = {"quick": 200, "thorough": 2400}
MAX_TASK_S = {"quick": 120, "thorough": 1500}
MAX_DEPTH = 20000
W = 16
ASSUMPTIONS = [
    "coalition ids are z3 bit-vectors of width 16 (ids < 2^16); loop-free operators are decided for ALL id pairs at once",
    "looping operations (players, len, from_players, sub-/super-coalition enumeration, id-array versions) fork per bit: one path per "
    "coalition, feasibility and the comparison with the set-theoretic reference decided by z3 under the path condition",
    "predicates: game values free reals with v(empty)=0; documented tolerances as exact dyadic values of the doubles 1e-9 / 1e-10",
]
OUTSIDE = ["ids >= 2^16", "n > 8 for the looping operations (n > 6 quick)", "predicates beyond n=4", "CrossHair second-engine pass (not run: see DESIGN)"]
STUBS = ["np proxy", "SymArray", "np.isclose model"]


def bounds_text(tier):
    if tier == "quick":
        return "loop-free ops: all id pairs < 2^16, all players 0..15; looping ops: all coalitions n=1..6; predicates n=2,3 (supermodularity n=2,3)"
    return "loop-free ops: all id pairs < 2^16; looping ops: all coalitions n=1..8; predicates n=2..4"


def tasks(tier, seed):
    out = [{"key": "pairs/objects", "kind": "pairs"}]
    for p in range(16):
        out.append({"key": f"player-ops/p{p}", "kind": "player", "p": p})
    for n in range(1, 16):
        out.append({"key": f"inverted/n{n}", "kind": "inverted", "n": n})
    for n in range(1, (8 if tier == "thorough" else 6) + 1):
        out.append({"key": f"single/n{n}", "kind": "single", "n": n})
    # large coalitions of larger games (the ids are restricted to coalitions that miss at most one player: n+1 paths): sizes of 8 and
    # more members, ids beyond one byte
    for n in (8,) if tier == "quick" else (8, 9, 10):
        out.append({"key": f"single/n{n}/large", "kind": "single", "n": n, "large": True})
    for n in range(2, (4 if tier == "thorough" else 3) + 1):
        for pred in ("is_superadditive", "is_monotone_decreasing", "is_sam", "check_supermodularity"):
            out.append({"key": f"predicate/{pred}/n{n}", "kind": "predicate", "pred": pred, "n": n, "canary": n == 2})
    return out


def setup(params, inp, lg):
    k = params["kind"]
    if k == "pairs":
        inp.bv("a", W)
        inp.bv("b", W)
    elif k == "player":
        inp.bv("a", W)
    elif k in ("inverted", "single"):
        a = inp.bv("a", W)
        if params.get("large"):
            full = 2 ** params["n"] - 1
            return [lg.Or([a == full] + [a == (full & ~(1 << i)) for i in range(params["n"])])]
        return [a < 2 ** params["n"]]
    elif k == "predicate":
        for S in range(1, 2 ** params["n"]):
            inp.real(f"v{S}")
    return []


def _id(c):
    return c.id


def scenario(pk, params, inp):
    C = pk.coalitions.Coalition
    co = pk.coalitions
    k = params["kind"]
    if k == "pairs":
        a, b = C(inp.bv("a", W)), C(inp.bv("b", W))
        return {"or": _id(a | b), "and": _id(a & b), "sub": _id(a - b), "eq": a == b, "disjoint": co.disjoint_coalitions(a, b),
                "contains": b in a, "excl": [c.id for c in co.exclude_coalition(a, [b])] != []}
    if k == "player":
        a, p = C(inp.bv("a", W)), params["p"]
        return {"add": _id(a + p), "subp": _id(a - p), "orp": _id(a | p), "andp": _id(a & p), "containsp": p in a,
                "singleton": co.player_to_coalition(p).id}
    if k == "inverted":
        a, n = C(inp.bv("a", W)), params["n"]
        return {"inv": _id(a.inverted(n)), "grand": co.grand_coalition(n).id}
    if k == "single":
        n = params["n"]
        aid = inp.bv("a", W)
        a = C(aid)
        pl = list(a.players)
        ids = pk.coalition_ids
        import numpy as np
        out = {"players": pl, "len": len(a), "roundtrip": _id(C.from_players(pl)),
               # a set of players may be handed over with repetitions, in any order, or as a one-shot iterator (Iterable[Player])
               "roundtrip_variants": [_id(C.from_players(pl + pl[::-1])), _id(C.from_players(iter(reversed(pl)))),
                                      _id(C.from_players(tuple(pl[1:] + pl[:1])))],
               "subs": sorted(int(c.id) for c in co.get_sub_coalitions(a)),
               "supers": sorted(int(c.id) for c in co.get_super_coalitions(a, n)),
               "id_players": [int(x) for x in ids.players(aid, n)], "id_size": int(ids.get_size(aid, n)),
               "id_subs": sorted(int(x) for x in ids.sub_coalitions(aid, n)),
               "id_supers": sorted(int(x) for x in ids.super_coalitions(aid, n)),
               "value": int(aid)}
        return out
    # predicates
    n = params["n"]
    import numpy as np
    v = [inp.const(0)] + [inp.real(f"v{S}") for S in range(1, 2 ** n)]
    g = pk.game.IncompleteCooperativeGame(n)
    arr = np.empty(2 ** n, dtype=object if pk.symbolic else float)
    for i, x in enumerate(v):
        arr[i] = x
    g.set_values(arr)
    pred = params["pred"]
    if pred == "check_supermodularity":
        r = pk.supermodularity_check.check_supermodularity(g)
        return {"result": r is None}
    r = getattr(pk.game_properties, pred)(g)
    return {"result": bool(r)}


def _bit(x, p, sym):
    if isinstance(x, int):
        return bool(x >> p & 1)
    import z3
    return z3.Extract(p, p, x.t) == 1


def _tol_sa(lg, lhs, rhs):
    rtol = Fraction(1e-9)
    if lg.mode == "sym":
        return lg.Or(lg.le(lhs, rhs), lg.truth(abs(lhs - rhs) <= abs(rhs) * lg.const(rtol)))
    return bool(lhs <= rhs) or bool(abs(lhs - rhs) <= 1e-9 * abs(rhs))


def _exact_le(lg, a, b):
    """non-tolerant comparison in both worlds (the predicates themselves compare exactly)."""
    if lg.mode == "sym":
        return lg.le(a, b)
    return bool(a <= b)


def claims(params, inp, out, lg):
    k = params["kind"]
    sym = lg.mode == "sym"
    cl = []
    if k == "pairs":
        a, b = inp.bv("a", W), inp.bv("b", W)
        for name, f in (("or", lambda x, y: lg.Or(x, y)), ("and", lambda x, y: lg.And(x, y)),
                        ("sub", lambda x, y: lg.And(x, lg.Not(y)))):
            cl.append((f"{name}-bitwise", lg.And([lg.Iff(_bit(out[name], p, sym), f(_bit(a, p, sym), _bit(b, p, sym))) for p in range(W)])))
        same = lg.And([lg.Iff(_bit(a, p, sym), _bit(b, p, sym)) for p in range(W)])
        disj = lg.And([lg.Not(lg.And(_bit(a, p, sym), _bit(b, p, sym))) for p in range(W)])
        subset = lg.And([lg.Implies(_bit(b, p, sym), _bit(a, p, sym)) for p in range(W)])
        cl.append(("eq-is-set-equality", lg.Iff(out["eq"], same)))
        cl.append(("disjoint-is-empty-intersection", lg.Iff(out["disjoint"], disj)))
        cl.append(("contains-is-subset", lg.Iff(out["contains"], subset)))
        cl.append(("exclude-keeps-disjoint-only", lg.Iff(out["excl"], disj)))
        return cl
    if k == "player":
        a, p = inp.bv("a", W), params["p"]
        for q in range(W):
            cl.append((f"add-player:bit{q}", lg.Iff(_bit(out["add"], q, sym), lg.Or(_bit(a, q, sym), q == p))))
            cl.append((f"remove-player:bit{q}", lg.Iff(_bit(out["subp"], q, sym), lg.And(_bit(a, q, sym), q != p))))
            cl.append((f"or-player:bit{q}", lg.Iff(_bit(out["orp"], q, sym), lg.Or(_bit(a, q, sym), q == p))))
            cl.append((f"and-player:bit{q}", lg.Iff(_bit(out["andp"], q, sym), lg.And(_bit(a, q, sym), q == p))))
        cl.append(("membership", lg.Iff(out["containsp"], _bit(a, p, sym))))
        cl.append(("singleton", out["singleton"] == 1 << p))
        return cl
    if k == "inverted":
        a, n = inp.bv("a", W), params["n"]
        for q in range(W):
            cl.append((f"complement:bit{q}", lg.Iff(_bit(out["inv"], q, sym), lg.And(q < n, lg.Not(_bit(a, q, sym))))))
        cl.append(("grand", out["grand"] == 2 ** n - 1))
        return cl
    if k == "single":
        n = params["n"]
        a = inp.bv("a", W)
        val = out["value"]
        ref_players = [p for p in range(W) if val >> p & 1]
        cl.append(("path-value-is-id", (a == val) if sym else a == val))
        cl.append(("players-are-the-set-bits", lg.And([lg.Iff(p in out["players"], _bit(a, p, sym)) for p in range(W)])))
        cl.append(("players-ascending-no-duplicates", out["players"] == sorted(set(out["players"]))))
        cl.append(("len-is-cardinality", out["len"] == len(ref_players)))
        cl.append(("from-players-roundtrip", (out["roundtrip"] == a) if sym else out["roundtrip"] == a))
        for vi, rv in enumerate(out["roundtrip_variants"]):
            cl.append((f"from-players-is-a-set-operation:variant={vi}", (rv == a) if sym else rv == a))
        ref_subs = sorted(F.subsets_of(val))
        ref_supers = sorted(val | s for s in F.subsets_of((2 ** n - 1) & ~val))
        cl.append(("sub-coalitions-exact-once", out["subs"] == ref_subs))
        cl.append(("super-coalitions-exact-once", out["supers"] == ref_supers))
        cl.append(("id-array-players-agree", out["id_players"] == ref_players))
        cl.append(("id-array-size-agrees", out["id_size"] == len(ref_players)))
        cl.append(("id-array-subs-agree", out["id_subs"] == ref_subs))
        cl.append(("id-array-supers-agree", out["id_supers"] == ref_supers))
        return cl
    # predicates: result True <=> textbook formula
    n = params["n"]
    v = [lg.const(0)] + [inp.real(f"v{S}") for S in range(1, 2 ** n)]
    pred = params["pred"]
    sa = lg.And([_tol_sa(lg, v[S] + v[U & ~S], v[U]) for U in range(2 ** n) for S in F.subsets_of(U)])
    mono = lg.And([_exact_le(lg, v[U], v[S]) for U in range(2 ** n) for S in F.subsets_of(U)])
    if pred == "is_superadditive":
        want = sa
    elif pred == "is_monotone_decreasing":
        want = mono
    elif pred == "is_sam":
        want = lg.And(sa, mono)
    else:
        tol = Fraction(1e-10)
        terms = []
        for T in range(2 ** n):
            for i in range(n):
                if T >> i & 1:
                    continue
                for S in F.subsets_of(T):
                    if S == T:
                        continue
                    lhs = v[S | 1 << i] - v[S]
                    rhs = v[T | 1 << i] - v[T]
                    terms.append(_exact_le(lg, lhs, rhs + (lg.const(tol) if sym else 1e-10)))
        want = lg.And(terms)
    cl.append((f"{pred}-decides-its-definition", lg.Iff(out["result"], want)))
    return cl


def canaries(params, inp, out, lg):
    k = params["kind"]
    sym = lg.mode == "sym"
    if k == "pairs":
        a, b = inp.bv("a", W), inp.bv("b", W)
        return [("canary-union-is-intersection", lg.And([lg.Iff(_bit(out["or"], p, sym), lg.And(_bit(a, p, sym), _bit(b, p, sym))) for p in range(W)]))]
    if k == "predicate":
        return [("canary-predicate-always-true", out["result"] is True)]
    return []


CANARY_TASKS = 1


def test_vectors(params):
    k = params["kind"]
    rnd = random.Random(params["key"])
    if k in ("pairs", "player"):
        return [{"a": Fraction(rnd.randrange(2 ** W)), "b": Fraction(rnd.randrange(2 ** W))} for _ in range(3)]
    if k in ("inverted", "single"):
        return [{"a": Fraction(rnd.randrange(2 ** params["n"]))} for _ in range(3)]
    n = params["n"]
    vecs = [{f"v{S}": g[S] for S in range(1, 2 ** n)} for g in F.sa_test_games(n, 2, 2) + F.sam_test_games(n, 2, 2)]
    vecs.append({f"v{S}": Fraction(rnd.randint(-8, 8), 2) for S in range(1, 2 ** n)})
    return vecs
