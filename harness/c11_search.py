"""C11 — exhaustive search evaluates each reveal set once, correctly; best-states finds the optimum."""
from __future__ import annotations

import itertools
import random
from fractions import Fraction

from . import families as F
from .stubs import PoolStub, install_pool_stub

ID = "C11"
HEAVY = True
NONLINEAR = "uf"
BUDGET_S = {"quick": 230, "thorough": 3000}
TIMEOUT_MS = {"quick": 30000, "thorough": 300000}
MAX_TASK_S = {"quick": 90, "thorough": 900}
GAPS = ["exploitability", "l1_norm", "l2_norm", "linf_norm"]
ASSUMPTIONS = [
    "exact real arithmetic; hidden sampled games symbolic and superadditive (the class assumed by the computers used)",
    "multiprocessing.Pool replaced by an in-process model: CPython chunking rule ceil(len/(4P)), every chunk deep-copied as a whole, "
    "results in input order (real OS processes, pickling of real objects, start methods are outside)",
    "reference gap = the same gap function on a FRESH game object knowing exactly start ∪ set, computed by the same registered computer",
]
OUTSIDE = ["real OS processes / pickling", "n>=5", "best-states at n=4 beyond the listed starts (path budget)",
           "best-states for games outside the class: only integer-valued games (multiples of 12, |v|<=600) at the listed n=4 starts"]
STUBS = ["Pool stub", "np proxy", "SymArray", "generator stub", "np.linalg.norm model"]


def bounds_text(tier):
    if tier == "quick":
        return ("enumeration+gaps: n=3 every start K x every k x P in {1,2,3,16}; n=4 minimal start k<=2 (56 sets) x P in {1,2,3,5,16}, 6 seeded starts k<=2; "
                "meta-game n=3 all 8 coalitions, n=4 16; best-states n=3 k<=3 m<=2, n=4 four starts with 6 known extras k<=2; best-states for ANY integer-valued game (no class) at two n=4 starts")
    return "as quick plus n=4: 16 seeded starts k<=3, meta-game all 1024 at n=4 split, best-states n=4 k<=2 (budgeted)"


def tasks(tier, seed):
    out = []
    rnd = random.Random(f"c11/{seed}")

    def add(kind, n, K, k, P, gap, m=1, comp="superadditive_cached", **kw):
        d = {"key": f"{kind}/n{n}/{comp}/{gap}/K={','.join(map(str, K))}/k={k}/P={P}/m={m}" + ("/anyclass" if kw.get("anyclass") else "") + ("/via_steps" if kw.get("via_steps") else "") + ("/twice" if kw.get("twice") else ""), "kind": kind, "n": n, "K": K, "k": k, "P": P,
             "gap": gap, "m": m, "computer": comp}
        d.update(kw)
        out.append(d)
    fam3, _ = F.family(3, tier, seed)
    add("search", 3, [], 3, 2, "exploitability", 2)
    for P in (1, 2, 3):
        add("search", 3, [], 2, P, "exploitability", 1, twice=True)
        add("search", 3, [5], 2, P, "l1_norm", 2, twice=True)
    add("search", 4, [], 1, 1, "exploitability", 1, twice=True)
    for K in fam3:
        unk = len(F.extras(3)) - len(K)
        for k in range(0, unk + 1):
            for P in (1, 2, 3, 16):
                add("search", 3, K, k, P, rnd.choice(GAPS), rnd.choice([1, 2]), rnd.choice(["superadditive", "superadditive_cached"]))
    for P in (1, 2, 3, 5, 16):
        for k in (1, 2):
            add("search", 4, [], k, P, rnd.choice(["exploitability", "l1_norm"]), 1)
    for K in fam3:                        # "for any game": integer-valued games of any class
        add("search", 3, K, 3 - len(K), 2, "exploitability", 2, anyclass=True)
    fam4, _ = F.family(4, tier, seed)
    for K in F.sample([x for x in fam4 if 1 <= len(x) <= 7], 16 if tier == "thorough" else 6, seed, "c11s4"):
        add("search", 4, K, 3 if tier == "thorough" else 2, rnd.choice([2, 3, 4, 5, 7]), "exploitability", 1)
    if tier == "thorough":
        for S in F.extras(4):
            add("search", 4, [S], 3, rnd.choice([2, 3, 5, 7, 16]), rnd.choice(["exploitability", "l1_norm", "linf_norm"]), rnd.choice([1, 2]))
        for K in F.sample([x for x in fam4 if len(x) == 6], 12, seed, "c11s4b"):
            add("search", 4, K, 4, rnd.choice([3, 5, 6]), "l2_norm", 2, rnd.choice(["superadditive", "superadditive_cached"]))
    for gap in GAPS:
        add("meta", 3, [], 0, 1, gap)
    add("meta", 4, [], 0, 1, "exploitability", sub=16 if tier == "quick" else 128)
    for m in (1, 2):
        for k in (1, 2, 3):
            for P in (1, 2):
                add("best", 3, [], k, P, rnd.choice(["exploitability", "l1_norm"]), m)
    # n=4 with most coalitions initially known: few candidates per size, so every ordering of the running minimum is explored
    for init in ([3, 5, 6, 9, 10, 12], [3, 12, 7, 11, 13, 14], [5, 10, 7, 11, 13, 14], [6, 9, 3, 14, 13, 7]):
        add("best", 4, init, 2, rnd.choice([1, 2, 3]), rnd.choice(["exploitability", "l1_norm"]), rnd.choice([1, 2]))
    # starting knowledge reached by STEPPING an environment that started from the minimal information ("any starting knowledge"):
    # the environment's explorable coalitions are then more than the still-unknown ones
    for K, k, P, m in (([3], 2, 1, 1), ([5], 3, 2, 1), ([3, 6], 1, 1, 2)):
        add("best", 3, K, k, P, "exploitability", m, via_steps=True)
    for init in ([3, 5, 6, 9, 10, 12], [5, 10, 7, 11, 13, 14]):
        add("best", 4, init, 2, 1, "l1_norm", 1, via_steps=True)
    # best-states "for any game": no class assumption (gaps may be negative, e.g. hit the in-band 'no entry yet' marker);
    # values restricted to integer multiples of 12 in [-600, 600] so that a counterexample is float-exact
    add("best", 4, [3, 5, 6, 9], 1, 1, "exploitability", 1, anyclass=True)
    add("best", 4, [3, 5, 6, 9, 10, 12], 2, 2, "exploitability", 1, anyclass=True)
    if tier == "thorough":
        add("best", 4, [3, 12], 1, 2, "exploitability", 1, anyclass=True)
        add("best", 4, [], 1, 2, "exploitability", 1)
        add("best", 4, [3, 12], 1, 3, "l1_norm", 2)
    return out


def _draw(inp, j, n):
    return [inp.const(0)] + [inp.real(f"g{j}v{S}") for S in range(1, 2 ** n)]


def setup(params, inp, lg):
    n = params["n"]
    ass = []
    for j in range(1, 2 * params["m"] + 3):
        v = _draw(inp, j, n)
        if params.get("anyclass"):
            for S in range(1, 2 ** n):
                if lg.mode == "sym":
                    import z3
                    k = z3.Int(f"k{j}_{S}")
                    ass.append(z3.And(v[S].t == 12 * z3.ToReal(k), k >= -50, k <= 50))
                else:
                    ass.append(float(v[S]) % 12 == 0 and abs(float(v[S])) <= 600)
        else:
            ass += F.sa_constraints(v, n, lg)
    return ass


def _full(pk, n, vals):
    import numpy as np
    g = pk.game.IncompleteCooperativeGame(n)
    a = np.empty(2 ** n, dtype=object if pk.symbolic else float)
    for i, x in enumerate(vals):
        a[i] = x
    g.set_values(a)
    return g


def _ref_gap(pk, params, vals, known, gapf):
    n = params["n"]
    C = pk.coalitions.Coalition
    g = pk.game.IncompleteCooperativeGame(n, pk.bounds.BOUNDS[params["computer"]])
    ks = sorted(known)
    g.set_known_values([vals[S] for S in ks], [C(S) for S in ks])
    g.compute_bounds()
    return gapf(g)


def _subsets_upto(unknown, k):
    return [list(c) for r in range(k + 1) for c in itertools.combinations(unknown, r)]


def scenario(pk, params, inp):
    n, K, k, P = params["n"], params["K"], params["k"], params["P"]
    C = pk.coalitions.Coalition
    install_pool_stub(pk)
    gapf = pk.run_model.GAP_FUNCTIONS[params["gap"]]
    comp = pk.bounds.BOUNDS[params["computer"]]
    start = sorted(set(F.minimal(n)) | set(K))
    unknown = [S for S in range(2 ** n) if S not in set(start)]
    counter = {"j": 0}

    def gen(*a, **kw):
        counter["j"] += 1
        return _full(pk, n, _draw(inp, counter["j"], n))
    kind = params["kind"]
    if kind == "search":
        game = pk.game.IncompleteCooperativeGame(n, comp)
        game.set_known_values([0 for _ in start], [C(S) for S in start])
        actions, values = pk.gameplay.sample_exploitabilities_of_action_sequences(
            game, gen, gapf, samples=params["m"], max_size=k, processes=P)
        sets = [[c.id for c in seq] for seq in actions]
        out = {"sets": sets, "values": [[values[j][i] for i in range(len(sets))] for j in range(params["m"])],
               "draws": counter["j"], "pool": list(PoolStub.log)}
        refs = []
        for j in range(params["m"]):
            vals = _draw(inp, j + 1, n)
            refs.append([_ref_gap(pk, params, vals, set(start) | set(s), gapf) for s in sets])
        out["refs"] = refs
        # the caller's game object must come back as it went in (the workers operate on copies), and a SECOND search on the same
        # object must again report the gaps of start ∪ set - for every number of worker processes, one included
        out["game_known_after"] = sorted(S for S in range(2 ** n) if bool(game.is_value_known(C(S))))
        if params.get("twice"):
            d0 = counter["j"]
            actions2, values2 = pk.gameplay.sample_exploitabilities_of_action_sequences(
                game, gen, gapf, samples=params["m"], max_size=k, processes=P)
            sets2 = [[c.id for c in seq] for seq in actions2]
            out["sets2"] = sets2
            out["values2"] = [[values2[j][i] for i in range(len(sets2))] for j in range(params["m"])]
            out["refs2"] = [[_ref_gap(pk, params, _draw(inp, d0 + j + 1, n), set(start) | set(s), gapf) for s in sets2] for j in range(params["m"])]
        return out
    if kind == "meta":
        vals = _draw(inp, 1, n)
        # ANOTHER meta-game of the same size is queried first in the same process (state keyed by the size alone must not leak)
        dfull = _full(pk, n, [inp.const(F.popcount(S) ** 2 + (S % 2)) for S in range(2 ** n)])
        dmg = pk.meta_game.MetaGame(dfull, pk.game.IncompleteCooperativeGame(n, comp), gapf)
        for mid in (0, 1, 2 ** len(F.extras(n)) - 1):
            dmg.get_value(C(mid))
        full = _full(pk, n, vals)
        inc = pk.game.IncompleteCooperativeGame(n, comp)
        mg = pk.meta_game.MetaGame(full, inc, gapf)
        players = [c.id for c in mg.players]
        ids = list(range(2 ** len(players)))
        if params.get("sub"):
            ids = random.Random(params["key"]).sample(ids, params["sub"])
        got, refs, inner = [], [], []
        for mid in ids:
            sel = [players[i] for i in range(len(players)) if mid >> i & 1]
            got.append(mg.get_value(C(mid)))
            refs.append(_ref_gap(pk, params, vals, set(F.minimal(n)) | set(sel), gapf))
            inner.append(sel)
        out = {"players": players, "ids": ids, "got": got, "refs": refs, "nplayers": int(mg.number_of_players)}
        if not params.get("sub"):
            out["all"] = list(mg.get_values())
        return out
    # best-states
    game = pk.game.IncompleteCooperativeGame(n, comp)
    if params.get("via_steps"):
        env = pk.icg_gym.ICG_Gym(game, gen, [C(S) for S in F.minimal(n)], gapf)
        ex0 = [c.id for c in env.explorable_coalitions]
        for S in K:
            env.step(ex0.index(S))
    else:
        env = pk.icg_gym.ICG_Gym(game, gen, [C(S) for S in F.minimal(n)] + [C(S) for S in K], gapf)
    d0 = counter["j"]
    best, best_actions = pk.run_best_states.get_best_exploitability(env, k, params["m"], gapf, processes=P)
    out = {"best": [[best[s][j] for j in range(params["m"])] for s in range(k + 1)], "best_actions": [list(map(int, a)) for a in best_actions],
           "first_draw": d0 + 1}
    ex = [S for S in F.extras(n) if S not in K]
    cands = {}
    for s in range(k + 1):
        cands[s] = []
        for c in itertools.combinations(ex, s):
            row = [_ref_gap(pk, params, _draw(inp, d0 + 1 + j, n), set(F.minimal(n)) | set(K) | set(c), gapf) for j in range(params["m"])]
            cands[s].append([list(c), row])
    out["cands"] = [[cands[s][i] for i in range(len(cands[s]))] for s in range(k + 1)]
    return out


def _mean(lg, row):
    acc = lg.const(0)
    for x in row:
        acc = acc + x
    return acc          # common factor 1/m irrelevant for comparisons


def claims(params, inp, out, lg):
    n, K, k = params["n"], params["K"], params["k"]
    kind = params["kind"]
    cl = []
    if kind == "search":
        start = set(F.minimal(n)) | set(K)
        unknown = [S for S in range(2 ** n) if S not in start]
        want = _subsets_upto(unknown, k)
        cl.append(("every-set-exactly-once", sorted(map(sorted, out["sets"])) == sorted(map(sorted, want))
                   and len(out["sets"]) == len(want)))
        cl.append(("sets-within-unknown", all(set(s) <= set(unknown) and len(set(s)) == len(s) for s in out["sets"])))
        cl.append(("one-generated-game-per-sample", out["draws"] == params["m"]))
        for j in range(params["m"]):
            for i, s in enumerate(out["sets"]):
                cl.append((f"gap-of-set:sample={j}:set={'+'.join(map(str, s))}", lg.eq(out["values"][j][i], out["refs"][j][i])))
        cl.append(("callers-game-keeps-its-knowledge", out["game_known_after"] == sorted(start), "C11/search-changes-the-callers-game"))
        if "sets2" in out:
            cl.append(("second-search:every-set-exactly-once", sorted(map(sorted, out["sets2"])) == sorted(map(sorted, want)), "C11/second-search"))
            for j in range(params["m"]):
                for i, s in enumerate(out["sets2"]):
                    if i < len(out["refs2"][j]):
                        cl.append((f"second-search:gap-of-set:sample={j}:set={'+'.join(map(str, s))}", lg.eq(out["values2"][j][i], out["refs2"][j][i]),
                                   "C11/second-search"))
        return cl
    if kind == "meta":
        cl.append(("meta-players-are-the-non-minimal-coalitions", out["players"] == F.extras(n) and out["nplayers"] == len(F.extras(n))))
        for i, mid in enumerate(out["ids"]):
            cl.append((f"meta-value:{mid}", lg.eq(out["got"][i], out["refs"][i])))
            if "all" in out:
                cl.append((f"meta-values-bulk:{mid}", lg.eq(out["all"][mid], out["refs"][i])))
        return cl
    zero = lg.const(0)
    prev = None
    for s in range(k + 1):
        col = out["best"][s]
        cands = out["cands"][s]
        if not cands:
            # more reveals than unknown coalitions: there is no set of that size, the property says nothing about the row
            cl.append((f"no-set-of-that-size-is-reported:size={s}", out["best_actions"][s] == []))
            continue
        mine = _mean(lg, col)
        cl.append((f"best-is-minimum:size={s}", lg.And([lg.le(mine, _mean(lg, row)) for _, row in cands])))
        # the reported set attains the reported column
        rep = sorted(out["best_actions"][s])
        match = [row for c, row in cands if sorted(c) == rep]
        cl.append((f"reported-set-has-that-size:size={s}", len(rep) == s and len(match) == 1))
        if match:
            cl.append((f"reported-set-attains:size={s}", lg.And([lg.eq(a, b) for a, b in zip(col, match[0])])))
        if prev is not None and not params.get("anyclass"):
            cl.append((f"curve-non-increasing:size={s}", lg.le(mine, prev)))
        prev = mine
    return cl


def canaries(params, inp, out, lg):
    if params["kind"] == "search" and out["sets"]:
        # false on purpose: the gap of the last set would have to be twice its reference plus one
        return [("canary-gap-off", lg.eq(out["values"][0][-1], out["refs"][0][-1] + 1))]
    return []


def test_vectors(params):
    n = params["n"]
    vecs = []
    if params.get("anyclass"):
        rnd = random.Random(params["key"])
        return [{f"g{j}v{S}": Fraction(12 * rnd.randint(-50, 50)) for j in range(1, 2 * params["m"] + 3) for S in range(1, 2 ** n)} for _ in range(2)]
    for t in range(2):
        d = {}
        games = F.sa_test_games(n, 31 + t, 3)
        for j in range(1, 2 * params["m"] + 3):
            for S in range(1, 2 ** n):
                d[f"g{j}v{S}"] = games[(j + t) % 3][S]
        vecs.append(d)
    return vecs
