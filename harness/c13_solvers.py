"""C13 — built-in solvers pick valid actions by their rule and leave the environment untouched."""
from __future__ import annotations

import itertools
import random
from fractions import Fraction

from . import families as F
from .stubs import PoolStub, install_pool_stub

ID = "C13"
HEAVY = True
NONLINEAR = "uf"
BUDGET_S = {"quick": 230, "thorough": 3000}
TIMEOUT_MS = {"quick": 30000, "thorough": 300000}
MAX_TASK_S = {"quick": 90, "thorough": 900}
ASSUMPTIONS = [
    "exact real arithmetic; hidden game symbolic and superadditive",
    "state reached by real env.step calls; reference one-step reward of an action = -gap of a FRESH game knowing K ∪ {action}",
    "random solver: its random.Random replaced by an exhaustive nondeterministic choice; expected-greedy: Pool stub, symbolic sampled games",
    "builtin max/min in solvers.greedy replaced by symbolic-aware versions with the same value semantics",
]
OUTSIDE = ["float rounding / ties closer than rounding", "n>=5", "ugreedy randomised tie-breaking beyond 'some minimiser within EPSILON'", "real OS processes"]
STUBS = ["Pool stub", "RNG choice stub", "np proxy", "SymArray", "np.argmin model (forks over the attaining index, first-index tie rule)"]
SOLVERS = ["greedy", "greedy_worst", "largest", "random"]
# exact ties (structural at n=3: all same-size reveals have equal gaps) are broken by rounding noise in the float run;
# which minimiser is picked is therefore not comparable between the worlds - the claims about it are (with tolerance)
XCHECK_IGNORE = ("chosen", "cands", "action", "offered")


def bounds_text(tier):
    if tier == "quick":
        return "n=3: all 7 non-terminal knowledge sets x 4 solvers x 2 gaps; n=4: 24 seeded states (<=2 extras + seeded); expected-greedy n=3 m<=2 P in {1,2} k<=3"
    return "n=3 complete; n=4: all states with <=2 extras + 64 seeded x 4 solvers; expected-greedy n=3 and n=4 (k<=2, budgeted)"


def tasks(tier, seed):
    out = []
    rnd = random.Random(f"c13/{seed}")

    def add(kind, n, K, solver, gap, **kw):
        d = {"key": f"{kind}/n{n}/{solver}/{gap}/K={','.join(map(str, K))}" + "".join(f"/{a}={b}" for a, b in sorted(kw.items())),
             "kind": kind, "n": n, "K": K, "solver": solver, "gap": gap}
        d.update(kw)
        out.append(d)
    fam3, _ = F.family(3, tier, seed)
    add("solver", 3, [], "greedy", "exploitability")
    for K in fam3:
        if len(K) == 3:
            continue
        for s in SOLVERS:
            for gap in ("exploitability", "l1_norm"):
                if not (s == "greedy" and not K and gap == "exploitability"):
                    add("solver", 3, K, s, gap)
    for K in fam3:                      # hidden games of any class (rewards may be positive, ties are rarer)
        if len(K) < 3:
            for s in ("greedy", "greedy_worst"):
                add("solver", 3, K, s, "exploitability", anyclass=True)
    fam4, _ = F.family(4, tier, seed)
    for K in F.sample([k for k in fam4 if 4 <= len(k) <= 7], 6 if tier == "quick" else 32, seed, "c13any4"):
        for s in ("greedy", "greedy_worst"):
            add("solver", 4, K, s, "exploitability", anyclass=True)
    small = [k for k in fam4 if len(k) <= 2]
    pick = (small + F.sample(fam4, 64, seed, "c13n4")) if tier == "thorough" else (F.sample(small, 12, seed, "c13s") + F.sample([k for k in fam4 if 3 <= len(k) <= 8], 12, seed, "c13m"))
    for K in pick:
        if len(K) == 10:
            continue
        for s in (SOLVERS if tier == "thorough" else [rnd.choice(SOLVERS[:2]), rnd.choice(SOLVERS[2:])]):
            add("solver", 4, K, s, rnd.choice(["exploitability", "l1_norm"]))
    for m in (1, 2):
        for P in (1, 2):
            for k in (1, 2, 3):
                add("expected", 3, [], "expected-greedy", rnd.choice(["exploitability", "l1_norm"]), m=m, P=P, k=k)
    # play-outs with ONE solver instance and back-tracking through unstep in between ("at every reachable environment state")
    for s_ in SOLVERS:
        add("playout", 3, [], s_, "exploitability", depth=2, rounds=3)
    add("playout", 3, [3], "random", "l1_norm", depth=2, rounds=2)
    # seven players (119 explorable coalitions: more than one machine word of action indices)
    if tier == "thorough":
        add("solver", 7, [], "largest", "l1_norm")
    # four players, three reveals, non-default gap functions (the candidates' ranking changes from round to round there)
    add("expected", 4, [], "expected-greedy", "linf_norm", m=1, P=1, k=3)
    add("expected", 4, [], "expected-greedy", "l1_norm", m=1, P=1, k=3)
    add("expected", 4, [], "expected-greedy", "l2_norm", m=1, P=1, k=3)
    if tier == "thorough":
        add("expected", 4, [], "expected-greedy", "exploitability", m=1, P=2, k=2)
        add("expected", 4, [], "expected-greedy", "linf_norm", m=2, P=2, k=3)
    return out


def _draw(inp, j, n):
    return [inp.const(0)] + [inp.real(f"g{j}v{S}") for S in range(1, 2 ** n)]


def setup(params, inp, lg):
    n = params["n"]
    ass = []
    for j in range(1, 6):
        if not params.get("anyclass"):
            ass += F.sa_constraints(_draw(inp, j, n), n, lg)
    return ass


def _full(pk, n, vals):
    import numpy as np
    g = pk.game.IncompleteCooperativeGame(n)
    a = np.empty(2 ** n, dtype=object if pk.symbolic else float)
    for i, x in enumerate(vals):
        a[i] = x
    g.set_values(a)
    return g


def _ref_gap(pk, n, vals, known, gapf, comp):
    C = pk.coalitions.Coalition
    g = pk.game.IncompleteCooperativeGame(n, comp)
    ks = sorted(known)
    g.set_known_values([vals[S] for S in ks], [C(S) for S in ks])
    g.compute_bounds()
    return gapf(g)


class _ChoiceRandom:
    def __init__(self, inp):
        self.inp = inp
        self.offered = []

    def choice(self, seq):
        seq = list(seq)
        self.offered.append(seq)
        return seq[self.inp.choose(len(seq), "Random.choice")]

    # the rest of the random.Random surface a solver may legitimately use: every outcome is explored
    def shuffle(self, x):
        perms = list(itertools.permutations(range(len(x))))
        p = perms[self.inp.choose(len(perms), "Random.shuffle")]
        x[:] = [x[i] for i in p]

    def sample(self, population, k):
        pool = list(population)
        return [pool.pop(self.inp.choose(len(pool), "Random.sample")) for _ in range(k)]

    def randrange(self, *a):
        r = range(*a)
        return r[self.inp.choose(len(r), "Random.randrange")]

    def randint(self, a, b):
        return a + self.inp.choose(b - a + 1, "Random.randint")

    def random(self):
        x = self.inp.real(f"rnd{len(self.offered)}")
        self.offered.append(["random()"])
        self.inp.assume((x >= 0) & (x < 1) if self.inp.mode == "sym" else (0 <= float(x) < 1))
        return x


def scenario(pk, params, inp):
    n, K = params["n"], params["K"]
    C = pk.coalitions.Coalition
    install_pool_stub(pk)
    gapf = pk.run_model.GAP_FUNCTIONS[params["gap"]]
    compname = "superadditive_cached"
    comp = pk.bounds.BOUNDS[compname]
    counter = {"j": 0}

    def gen(*a, **kw):
        counter["j"] += 1
        return _full(pk, n, _draw(inp, counter["j"], n))
    pk.generators.GENERATORS["__sym__"] = gen
    inst = pk.run_model.ModelInstance(number_of_players=n, game_class=compname, game_generator="__sym__",
                                      gap_function=params["gap"], seed=11)
    env = inst.get_env()
    hidden = _draw(inp, counter["j"], n)
    ex = [c.id for c in env.explorable_coalitions]
    if params["kind"] == "expected":
        d0 = counter["j"]
        k, m, P = params["k"], params["m"], params["P"]
        curve, chosen = pk.run_greedy.get_greedy_rewards(env, k, m, gapf, processes=P)
        out = {"curve": [[curve[s][j] for j in range(m)] for s in range(k + 1)], "chosen": [int(c) for c in chosen], "ex": ex}
        games = [_draw(inp, d0 + 1 + j, n) for j in range(m)]
        # reference: mean gaps of every candidate extension along the chosen sequence, and the exhaustive optimum per size
        seq, cands = [], []
        for s in range(len(chosen)):
            row = {}
            for c in ex:
                if c not in seq:
                    row[c] = [_ref_gap(pk, n, g, set(F.minimal(n)) | set(seq) | {c}, gapf, comp) for g in games]
            cands.append([[c, row[c]] for c in sorted(row)])
            seq.append(chosen[s])
        out["cands"] = cands
        out["base"] = [_ref_gap(pk, n, g, set(F.minimal(n)), gapf, comp) for g in games]
        out["optimum"] = [[[list(c), [_ref_gap(pk, n, g, set(F.minimal(n)) | set(c), gapf, comp) for g in games]]
                           for c in itertools.combinations(ex, s)] for s in range(k + 1)]
        return out
    for S in K:
        env.step(ex.index(S))
    solver = pk.solvers.SOLVERS[params["solver"]](inst)
    rs = None
    if params["solver"] == "random":
        rs = _ChoiceRandom(inp)
        solver._generator = rs

    if params["kind"] == "playout":
        if hasattr(solver, "after_reset"):
            solver.after_reset(env)
        proposals = []
        for rnd_ in range(params["rounds"]):
            taken = []
            for _d in range(params["depth"]):
                mask = [bool(x) for x in env.action_masks()]
                if not any(mask):
                    break
                a = int(solver.next_step(env))
                proposals.append({"round": rnd_, "action": a, "valid": bool(0 <= a < len(mask) and mask[a]), "mask_after": [bool(x) for x in env.action_masks()] == mask})
                if not proposals[-1]["valid"]:
                    break
                env.step(a)
                taken.append(a)
            for a in reversed(taken):
                env.unstep(a)
        return {"proposals": proposals, "ex": ex}

    def snap():
        g = env.incomplete_game
        return {"table": [[bool(g.is_value_known(C(S))), g.get_lower_bound(C(S)), g.get_upper_bound(C(S))] for S in range(2 ** n)],
                "steps": int(env.steps_taken), "mask": [bool(x) for x in env.action_masks()], "state": list(env.state), "reward": env.reward}
    before = snap()
    action = solver.next_step(env)
    after = snap()
    known = set(F.minimal(n)) | set(K)
    valid = [i for i, S in enumerate(ex) if S not in known]
    rewards = {i: lg_neg(_ref_gap(pk, n, hidden, known | {ex[i]}, gapf, comp)) for i in valid}
    return {"action": int(action), "ex": ex, "valid": valid, "rewards": [[i, rewards[i]] for i in valid], "before": before, "after": after,
            "offered": rs.offered if rs else []}


def lg_neg(x):
    return 0 - x


def _mean(lg, row):
    acc = lg.const(0)
    for x in row:
        acc = acc + x
    return acc


def claims(params, inp, out, lg):
    n = params["n"]
    cl = []
    if params["kind"] == "expected":
        k, m = params["k"], params["m"]
        chosen = out["chosen"]
        cl.append(("never-repeats-a-coalition", len(set(chosen)) == len(chosen) and all(c in out["ex"] for c in chosen)))
        cl.append(("sequence-length", len(chosen) == min(k, len(out["ex"]))))
        cl.append(("zero-reveals-is-base-gap", lg.And([lg.eq(a, b) for a, b in zip(out["curve"][0], out["base"])])))
        for s, c in enumerate(chosen):
            cands = dict((cc, row) for cc, row in out["cands"][s])
            mine = cands.get(c)
            cl.append((f"extension-is-a-candidate:step={s}", mine is not None))
            if mine is None:
                continue
            cl.append((f"extension-minimises-mean-gap:step={s}", lg.And([lg.le(_mean(lg, mine), _mean(lg, row)) for row in cands.values()])))
            cl.append((f"curve-is-gap-of-chosen-prefix:step={s}", lg.And([lg.eq(a, b) for a, b in zip(out["curve"][s + 1], mine)])))
        for s in range(1, len(chosen) + 1):
            cl.append((f"curve-non-increasing:size={s}", lg.le(_mean(lg, out["curve"][s]), _mean(lg, out["curve"][s - 1]))))
            opt = out["optimum"][s]
            cl.append((f"never-below-exhaustive-optimum:size={s}", lg.Or([lg.le(_mean(lg, row), _mean(lg, out["curve"][s])) for _, row in opt])))
            if s == 1:
                cl.append(("equals-optimum-for-one-reveal", lg.And([lg.le(_mean(lg, out["curve"][1]), _mean(lg, row)) for _, row in opt])))
        return cl
    if params["kind"] == "playout":
        for i, p in enumerate(out["proposals"]):
            cl.append((f"proposal-is-currently-valid:round={p['round']}:#{i}", p["valid"] is True, f"C13/{params['solver']}/invalid-action-after-backtracking"))
            cl.append((f"proposal-leaves-mask:round={p['round']}:#{i}", p["mask_after"] is True))
        return cl
    a = out["action"]
    valid = out["valid"]
    rew = dict((i, r) for i, r in out["rewards"])
    cl.append(("action-is-valid", a in valid))
    b, af = out["before"], out["after"]
    cl.append(("environment-untouched:table", lg.And([lg.And(x[0] == y[0], lg.eq(x[1], y[1]), lg.eq(x[2], y[2])) for x, y in zip(b["table"], af["table"])])))
    cl.append(("environment-untouched:steps-mask", b["steps"] == af["steps"] and b["mask"] == af["mask"]))
    cl.append(("environment-untouched:state-reward", lg.And([lg.eq(x, y) for x, y in zip(b["state"], af["state"])], lg.eq(b["reward"], af["reward"]))))
    if a not in rew:
        return cl
    s = params["solver"]
    if s in ("greedy", "greedy_worst"):
        better = (lambda x, y: lg.ge(x, y)) if s == "greedy" else (lambda x, y: lg.le(x, y))
        strictly = (lambda x, y: lg.gt(x, y)) if s == "greedy" else (lambda x, y: lg.lt(x, y))
        cl.append((f"{s}-extremal-immediate-reward", lg.And([better(rew[a], rew[i]) for i in valid])))
        cl.append((f"{s}-ties-to-lowest-index", lg.And([strictly(rew[a], rew[i]) for i in valid if i < a])))
    elif s == "largest":
        sizes = {i: F.popcount(out["ex"][i]) for i in valid}
        mx = max(sizes.values())
        cl.append(("largest:maximal-size-lowest-index", sizes[a] == mx and a == min(i for i in valid if sizes[i] == mx)))
    else:
        cl.append(("random:offered-exactly-the-valid-actions", out["offered"] == [valid]))
    return cl


def canaries(params, inp, out, lg):
    if params["kind"] == "solver" and params["solver"] == "greedy":
        rew = dict((i, r) for i, r in out["rewards"])
        a = out["action"]
        if a in rew and len(rew) > 1:
            # false on purpose: the greedy reward would have to exceed every other reward by at least 1
            return [("canary-greedy-wins-by-one", lg.And([lg.ge(rew[a], rew[i] + 1) for i in rew if i != a]))]
    return []


CANARY_TASKS = 4


# concolic pre-pass (engine.run guides): the paths taken by the test vectors are explored first, the systematic pass follows
GUIDED = True
GUIDED_N = 10
FALLBACK_ON_UNDECIDED = True
FALLBACK_VECTORS = 10        # tasks the solver leaves undecided (l2 rankings) are at least tried on all generic test games


def guided_for(params):
    return params["kind"] == "expected" and params["n"] >= 4


def test_vectors(params):
    n = params["n"]
    vecs = []
    for t in range(2):
        d = {}
        games = F.sa_test_games(n, 41 + t, 3)
        for j in range(1, 6):
            for S in range(1, 2 ** n):
                d[f"g{j}v{S}"] = games[(j + t) % 3][S]
        vecs.append(d)
    # generic superadditive games (no symmetry): these drive the guided paths of the searches
    for t in range(8):
        games = F.random_sa_games(n, f"c13/{t}", 5)
        vecs.append({f"g{j}v{S}": games[j - 1][S] for j in range(1, 6) for S in range(1, 2 ** n)})
    return vecs
