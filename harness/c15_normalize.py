"""C15 — normalisation maps superadditive games into [0,1] and is invertible (exact reals)."""
from __future__ import annotations

import os
import random
from fractions import Fraction

from . import families as F

ID = "C15"
HEAVY = False
BUDGET_S = {"quick": 230, "thorough": 3000}
TIMEOUT_MS = {"quick": 150000, "thorough": 600000}
MAX_TASK_S = {"quick": 220, "thorough": 2800}
ASSUMPTIONS = [
    "exact real arithmetic (values kept as fractions over the symbolic surplus so the queries stay linear)",
    "value-table games: any superadditive game (textbook constraints), negative / non-zero-normalised included",
    "C15-fp: ONE float-semantics kernel - the real additive generator and normalize_game at n=3 with z3 Float64 terms (round-to-nearest-even), "
    "draws in [0,1); asks whether a normalised value can leave [-1e-9, 1+1e-9]",
    "graph games: arbitrary real matrix whose strictly-upper-triangular weights are >= 0 (diagonal and lower triangle free: they must be ignored)",
]
OUTSIDE = ["float rounding other than the additive n=3 kernel (C15-fp)", "n>=6"]
STUBS = ["np proxy", "SymArray"]


def bounds_text(tier):
    return "value table n=2..5, graph n=2..5, both paths (surplus zero / non-zero); fp64 kernel n=3" if tier == "quick" else \
        "value table n=2..6, graph n=2..6, both paths; fp64 kernel n=3 (longer solver budget)"


FP_SIG = "C15/fp64/additive-residue"
# a float counterexample must also be a game the library itself accepts as superadditive; that acceptance test is evaluated only in the
# concrete replay (is_superadditive on the float game), so a solver model that fails it is dropped as inconclusive, not as a harness error
SOFT_SIGNATURES = (FP_SIG,)


def tasks(tier, seed):
    out = [{"key": "fp64/additive/n3", "kind": "fp64", "n": 3}]
    nmax = 6 if tier == "thorough" else 5
    for n in range(2, nmax + 1):
        out.append({"key": f"icg/n{n}", "kind": "icg", "n": n})
        out.append({"key": f"graph/n{n}", "kind": "graph", "n": n})
    # nine players (coalition ids need more than one byte): the clauses that hold for ANY game by construction (singletons zero, grand one
    # or all zero, round trip, accessors) - no class assumption, so the 9 330 superadditivity constraints are not needed
    out.append({"key": "icg/n9/structural", "kind": "icg", "n": 9, "structural": True, "noxcheck": True, "timeout_ms": 3000, "max_task_s": 60})
    return out


def _v(params, inp):
    n = params["n"]
    return [inp.const(0)] + [inp.real(f"v{S}") for S in range(1, 2 ** n)]


def _m(params, inp):
    n = params["n"]
    return [[inp.real(f"m{i}_{j}") for j in range(n)] for i in range(n)]


def setup(params, inp, lg):
    n = params["n"]
    if params["kind"] == "fp64":
        ws = [inp.f64(f"w{i}") for i in range(n)]
        if lg.mode == "sym":
            return [(w >= 0.0) & (w < 1.0) for w in ws]        # numpy's Generator.random(): [0, 1)
        return [0.0 <= float(w) < 1.0 for w in ws]
    if params["kind"] == "icg":
        return [] if params.get("structural") else F.sa_constraints(_v(params, inp), n, lg)
    m = _m(params, inp)
    return [lg.ge(m[i][j], 0) for i in range(n) for j in range(i + 1, n)]


def _full(pk, n, vals):
    import numpy as np
    g = pk.game.IncompleteCooperativeGame(n)
    a = np.empty(2 ** n, dtype=object if pk.symbolic else float)
    for i, x in enumerate(vals):
        a[i] = x
    g.set_values(a)
    return g


def _graph(pk, n, m):
    import numpy as np
    a = np.empty((n, n), dtype=object if pk.symbolic else float)
    for i in range(n):
        for j in range(n):
            a[i, j] = m[i][j]
    if pk.symbolic:
        from symx.arrays import SymArray
        a = a.view(SymArray)
    return pk.graph_game.GraphCooperativeGame(a)


def _accessors(pk, g, n):
    """The same table through every public accessor: one by one, all at once, and an explicit (reversed) coalition list."""
    C = pk.coalitions.Coalition
    ids = list(range(2 ** n))
    rev = ids[::-1]
    listed = list(g.get_values([C(S) for S in rev]))
    return {"single": [g.get_value(C(S)) for S in ids], "all": list(g.get_values()), "listed": [listed[rev.index(S)] for S in ids]}


def scenario(pk, params, inp):
    n = params["n"]
    C = pk.coalitions.Coalition
    nz = pk.normalize
    if params["kind"] == "fp64":
        # float64 semantics (z3 QF_FP, round-to-nearest-even) through the REAL additive generator and normalize_game
        draws = iter(range(n))
        g = pk.generators.additive(n, None, weights_dist_fn=lambda _g: inp.f64(f"w{next(draws)}"))
        raw = [g.get_value(C(S)) for S in range(2 ** n)]
        if not pk.symbolic and not pk.game_properties.is_superadditive(g):
            inp.assume(False)          # not a game "the library itself accepts as superadditive"
        info = nz.normalize_game(g)
        return {"raw": raw, "surplus": info[0], "norm": [g.get_value(C(S)) for S in range(2 ** n)]}
    if params["kind"] == "icg":
        v = _v(params, inp)
        # another game of the same size is normalised first in the same process (state keyed by the size alone must not leak)
        decoy = _full(pk, n, [inp.const(F.popcount(S) ** 2 + (S % 3)) for S in range(2 ** n)])
        nz.denormalize_game(decoy, nz.normalize_game(decoy))
        g = _full(pk, n, v)
        info = nz.normalize_game(g)
        out = {"surplus": info[0], "singletons": list(info[1]),
               "norm": [g.get_value(C(S)) for S in range(2 ** n)],
               "normL": list(g.get_lower_bounds()), "normU": list(g.get_upper_bounds()),
               "known": [bool(x) for x in g.are_values_known()]}
        acc = {"norm": _accessors(pk, g, n)}
        nz.denormalize_game(g, info)
        out["restored"] = [g.get_value(C(S)) for S in range(2 ** n)]
        acc["restored"] = _accessors(pk, g, n)
        info2 = nz.normalize_game(g)
        acc["norm2"] = _accessors(pk, g, n)
        nz.denormalize_game(g, info2)
        acc["restored2"] = _accessors(pk, g, n)
        out["acc"] = acc
        return out
    m = _m(params, inp)
    gg = _graph(pk, n, m)
    raw = [gg.get_value(C(S)) for S in range(2 ** n)]
    tab = _full(pk, n, list(gg.get_values()))
    acc = {"raw": _accessors(pk, gg, n)}
    info_g = nz.normalize_game(gg)
    info_t = nz.normalize_game(tab)
    out = {"raw": raw, "surplus": info_g[0], "surplus_tab": info_t[0],
           "norm": [gg.get_value(C(S)) for S in range(2 ** n)], "norm_tab": [tab.get_value(C(S)) for S in range(2 ** n)]}
    acc["norm"] = _accessors(pk, gg, n)
    acc["norm_tab"] = _accessors(pk, tab, n)
    nz.denormalize_game(gg, info_g)
    out["restored"] = [gg.get_value(C(S)) for S in range(2 ** n)]
    acc["restored"] = _accessors(pk, gg, n)
    nz.denormalize_game(tab, info_t)
    acc["restored_tab"] = _accessors(pk, tab, n)
    # a second normalise / de-normalise cycle on the same objects (state kept from the first one must not leak)
    info_g2 = nz.normalize_game(gg)
    acc["norm2"] = _accessors(pk, gg, n)
    nz.denormalize_game(gg, info_g2)
    acc["restored2"] = _accessors(pk, gg, n)
    out["acc"] = acc
    return out


def claims(params, inp, out, lg):
    n = params["n"]
    N = 2 ** n - 1
    if params["kind"] == "fp64":
        cl = []
        lo, hi = -1e-9, 1.0 + 1e-9          # a margin: rounding dust of 1e-40 is not the defect
        oks = []
        for S in range(2 ** n):
            x = out["norm"][S]
            if lg.mode == "sym":
                from symx.values import SymF64
                oks.append(lg.And((x >= lo), (x <= hi)) if isinstance(x, SymF64) else (lo <= float(x) <= hi))
            else:
                oks.append(bool(lo <= float(x) <= hi))
        # ONE query for the whole vector: the solver is free to pick the coalition that is easiest to push out
        quick = os.environ.get("VERIF_TIER", "quick") == "quick"
        divided = True
        if lg.mode == "sym":
            import z3
            from symx.values import SymF64
            g = out["norm"][N]
            divided = isinstance(g, SymF64) and z3.is_app_of(g.t, z3.Z3_OP_FPA_DIV)
        # the path on which the guard fired (no division) only leaves residues of the order of 1 ulp: give it a short budget
        budget = (100 if quick else 1200) if divided else (15 if quick else 600)
        cl.append(("float-normalised-values-in-unit-interval", lg.And(oks), FP_SIG, {"external": "cvc5", "timeout_s": budget}))
        return cl
    zero, one = lg.const(0), lg.const(1)
    cl = []
    if params["kind"] == "icg":
        v = _v(params, inp)
        ref_surplus = v[N]
        for i in range(n):
            ref_surplus = ref_surplus - v[1 << i]
        cl.append(("surplus-reported", lg.eq(out["surplus"], ref_surplus)))
        cl.append(("singleton-values-reported", lg.And([lg.eq(out["singletons"][i], v[1 << i]) for i in range(n)])))
        nonzero = lg.Not(lg.eq(ref_surplus, zero))
        norm = out["norm"]
        cl.append(("singletons-zero", lg.And([lg.eq(norm[1 << i], zero) for i in range(n)])))
        cl.append(("empty-zero", lg.eq(norm[0], zero)))
        structural = bool(params.get("structural"))
        for S in range(2 ** n):
            if not structural:
                cl.append((f"in-unit-interval:S={S}", lg.And(lg.ge(norm[S], zero), lg.le(norm[S], one))))
            cl.append((f"interval-degenerate:S={S}", lg.And(lg.eq(out["normL"][S], norm[S]), lg.eq(out["normU"][S], norm[S]), out["known"][S] is True)))
            # (outside the superadditive class a zero surplus does not make the shifted values zero, and the round trip is only
            # promised for games of the class: the any-game form is conditional on a non-zero surplus)
            cl.append((f"roundtrip:S={S}", lg.Implies(nonzero, lg.eq(out["restored"][S], v[S])) if structural else lg.eq(out["restored"][S], v[S])))
        if structural:
            # for ANY game: surplus non-zero => grand coalition 1; and the normalised value is (v_S - sum of its singletons) / surplus
            cl.append(("grand-one", lg.Implies(nonzero, lg.eq(norm[N], one))))
            for S in range(2 ** n):
                num = v[S]
                for i in range(n):
                    if S >> i & 1:
                        num = num - v[1 << i]
                cl.append((f"normalised-value-is-shifted-and-scaled:S={S}", lg.Implies(nonzero, lg.truth(norm[S] * ref_surplus == num)) if lg.mode == "sym"
                           else (abs(float(ref_surplus)) < 1e-12 or lg.eq(norm[S], float(num) / float(ref_surplus)))))
        else:
            cl.append(("grand-one-or-all-zero", lg.And(lg.Implies(nonzero, lg.eq(norm[N], one)),
                                                     lg.Implies(lg.Not(nonzero), lg.And([lg.eq(norm[S], zero) for S in range(2 ** n)])))))
            cl.append(("normalised-superadditive", lg.And(F.sa_constraints(norm, n, lg))))
        if not structural:
            cl += _acc_claims(lg, out["acc"], {"norm": norm, "restored": None, "norm2": None, "restored2": None})     # (restored vs v: the per-coalition roundtrip claims)
        else:
            cl += _acc_claims(lg, {"norm": out["acc"]["norm"]}, {"norm": norm})
        return cl
    raw = out["raw"]
    m = _m(params, inp)
    for S in range(2 ** n):
        ref = zero
        for i in range(n):
            for j in range(i + 1, n):
                if S >> i & 1 and S >> j & 1:
                    ref = ref + m[i][j]
        cl.append((f"graph-value-is-edge-sum:S={S}", lg.eq(raw[S], ref)))
        cl.append((f"graph-and-table-normalise-equally:S={S}", lg.eq(out["norm"][S], out["norm_tab"][S])))
        cl.append((f"in-unit-interval:S={S}", lg.And(lg.ge(out["norm"][S], zero), lg.le(out["norm"][S], one))))
        cl.append((f"roundtrip:S={S}", lg.eq(out["restored"][S], raw[S])))
    cl.append(("graph-superadditive", lg.And(F.sa_constraints(raw, n, lg))))
    cl.append(("surplus-agrees", lg.eq(out["surplus"], out["surplus_tab"])))
    nonzero = lg.Not(lg.eq(raw[N], zero))
    cl.append(("grand-one-or-all-zero", lg.And(lg.Implies(nonzero, lg.eq(out["norm"][N], one)),
                                             lg.Implies(lg.Not(nonzero), lg.And([lg.eq(out["norm"][S], zero) for S in range(2 ** n)])))))
    cl.append(("normalised-superadditive", lg.And(F.sa_constraints(out["norm"], n, lg))))
    cl += _acc_claims(lg, out["acc"], {"raw": raw, "norm": out["norm"], "norm_tab": out["norm"], "restored": raw, "restored_tab": raw,
                                       "norm2": out["norm"], "restored2": raw})
    return cl


def _acc_claims(lg, acc, want):
    """At every stage every accessor shows the same table (the bulk accessors are compared with the one-by-one accessor: the same stored
    terms, so the comparison is cheap), namely the expected one where a reference is given (None = only agreement is asserted: the second
    cycle of a value-table game is a quotient of quotients, which z3 does not decide in time)."""
    cl = []
    for stage, ref in want.items():
        a = acc[stage]
        ok = []
        for kind in ("all", "listed"):
            if len(a[kind]) != len(a["single"]):
                ok.append(False)
                continue
            ok += [lg.eq(x, r) for x, r in zip(a[kind], a["single"])]
        if ref is not None:
            ok += [lg.eq(x, r) for x, r in zip(a["single"], ref)] if len(ref) == len(a["single"]) else [False]
        cl.append((f"every-accessor-shows-the-table:{stage}", lg.And(ok), "C15/accessors-disagree"))
    return cl


def canaries(params, inp, out, lg):
    n = params["n"]
    if params["kind"] == "fp64":
        return []
    # false on purpose: every normalised value would have to be at most 1/2
    return [("canary-values-below-half", lg.And([lg.le(out["norm"][S], lg.const(Fraction(1, 2))) for S in range(2 ** n)]))]


CANARY_TASKS = 2


def test_vectors(params):
    n = params["n"]
    rnd = random.Random(params["key"])
    if params["kind"] == "fp64":
        return [{f"w{i}": float(rnd.random()).hex() for i in range(n)} for _ in range(3)]
    if params["kind"] == "icg":
        if params.get("structural"):
            return [{f"v{S}": g[S] for S in range(1, 2 ** n)} for g in F.sa_test_games(n, 4, 3)[2:]]
        return [{f"v{S}": g[S] for S in range(1, 2 ** n)} for g in F.sa_test_games(n, 4, 3)]
    vecs = []
    for t in range(3):
        d = {}
        for i in range(n):
            for j in range(n):
                d[f"m{i}_{j}"] = Fraction(rnd.randint(0, 16), 4) if (j > i and t < 2) else Fraction(rnd.randint(-8, 8) if j <= i else 0, 4)
        vecs.append(d)
    return vecs
