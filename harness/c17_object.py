"""C17 — an incomplete game object is a faithful map coalition -> (known?, lower, upper)."""
from __future__ import annotations

import itertools
import random
from fractions import Fraction

from . import families as F

ID = "C17"
HEAVY = False
LOGIC = "QF_LRA"
BUDGET_S = {"quick": 200, "thorough": 1800}
ASSUMPTIONS = [
    "exact real arithmetic; every stored lower/upper/value and every operand is a free real variable",
    "pre-state = any flag pattern (enumerated) with known rows L=U=value and unknown rows arbitrary; one public operation is applied "
    "and the whole table is compared with a reference map written from the property text (inductive step over histories)",
]
OUTSIDE = ["n>=5", "flag patterns not listed at n=4", "subset arguments of more than 3 coalitions (plus 'all'); list arguments are exercised in ascending AND non-ascending order", "NaN/inf operands"]
STUBS = ["np proxy", "SymArray"]
OPS = ["set_value", "unset_value", "reveal_value", "unreveal_value", "set_values_all", "set_values_subset",
       "set_known_values", "set_lower_bounds", "set_upper_bounds", "set_bound_scalar", "copy", "neg", "add", "getters"]


def bounds_text(tier):
    if tier == "quick":
        return "n=1,2 all flag patterns; n=3 all 128 patterns with the empty coalition known + 16 with it unknown; n=4 8 seeded; every operation x every coalition / list argument (singletons, pairs in both orders, unsorted triples)"
    return "n=1,2 all patterns; n=3 all 256 patterns; n=4 64 seeded patterns; every operation x every coalition / subset (<=2) argument"


def tasks(tier, seed):
    out = []

    def add(n, known):
        out.append({"key": f"n{n}/known={','.join(map(str, known))}", "n": n, "known": known})
    add(3, [0, 1, 2, 4, 7])
    for n in (1, 2):
        for r in range(2 ** n + 1):
            for c in itertools.combinations(range(2 ** n), r):
                add(n, list(c))
    rest = list(range(1, 8))
    pats = [[0] + list(c) for r in range(8) for c in itertools.combinations(rest, r)]
    for p in pats:
        if p != [0, 1, 2, 4, 7]:
            add(3, p)
    rnd = random.Random(f"c17/{seed}")
    no_empty = [list(c) for r in range(8) for c in itertools.combinations(rest, r)]
    for p in (no_empty if tier == "thorough" else rnd.sample(no_empty, 16)):
        add(3, p)
    for _ in range(64 if tier == "thorough" else 8):
        add(4, sorted(set([0] * rnd.randint(0, 1) + [S for S in range(1, 16) if rnd.random() < 0.5])))
    return out


def setup(params, inp, lg):
    n = params["n"]
    for S in range(2 ** n):
        inp.real(f"k{S}")
        inp.real(f"l{S}")
        inp.real(f"u{S}")
        inp.real(f"x{S}")
        inp.real(f"h{S}")
    return []


def _pre(params, inp):
    n = params["n"]
    known = set(params["known"])
    st = {}
    for S in range(2 ** n):
        if S in known:
            st[S] = [True, inp.real(f"k{S}"), inp.real(f"k{S}")]
        else:
            st[S] = [False, inp.real(f"l{S}"), inp.real(f"u{S}")]
    return st


def _build(pk, params, inp):
    """Reach the pre-state through public scalar operations only."""
    n = params["n"]
    C = pk.coalitions.Coalition
    g = pk.game.IncompleteCooperativeGame(n)
    st = _pre(params, inp)
    for S in range(2 ** n):
        if st[S][0]:
            g.set_value(st[S][1], C(S))
        else:
            if S == 0:
                g.unset_value(C(0))
            g.set_lower_bound(st[S][1], C(S))
            g.set_upper_bound(st[S][2], C(S))
    return g


def _read(pk, g, n):
    C = pk.coalitions.Coalition
    return [[bool(g.is_value_known(C(S))), g.get_lower_bound(C(S)), g.get_upper_bound(C(S))] for S in range(2 ** n)]


def _read_bulk(pk, g, n):
    """The same table through the vectorised accessors: known flags, lower / upper bounds, and 'known values' (None where unknown)."""
    kn = [bool(b) for b in g.are_values_known()]
    lo, up = list(g.get_lower_bounds()), list(g.get_upper_bounds())
    kv = list(g.get_known_values())
    return {"rows": [[kn[S], lo[S], up[S]] for S in range(2 ** n)],
            "known_values_hide_unknown": all((kn[S]) or kv[S] is None or (isinstance(kv[S], float) and kv[S] != kv[S]) for S in range(2 ** n)),
            "known_values": [kv[S] if kn[S] else None for S in range(2 ** n)]}


def _arr(pk, vals):
    import numpy as np
    a = np.empty(len(vals), dtype=object if pk.symbolic else float)
    for i, x in enumerate(vals):
        a[i] = x
    return a


def _subsets(n):
    """Coalition-list arguments: singletons, pairs in BOTH orders, and unsorted triples (list order must be respected)."""
    ids = list(range(2 ** n))
    pairs = [list(c) for c in itertools.permutations(ids, 2)]
    triples = [list(c) for c in itertools.permutations(ids, 3) if not (c[0] < c[1] < c[2])]
    rnd = random.Random(n)
    if len(pairs) > 30:
        pairs = rnd.sample(pairs, 30)
    if len(triples) > 10:
        triples = rnd.sample(triples, 10)
    return [[S] for S in ids] + pairs + triples


def instances(params):
    """All (op, arg) instances exercised on this pre-state."""
    n = params["n"]
    known = set(params["known"])
    inst = []
    for S in range(2 ** n):
        inst.append(("set_value", [S]))
        inst.append(("unset_value", [S]))
        inst.append(("reveal_value" if S not in known else "unreveal_value", [S]))
        inst.append(("set_bound_scalar", [S]))
    inst.append(("set_values_all", []))
    inst.append(("set_lower_bounds", ["all"]))
    inst.append(("set_upper_bounds", ["all"]))
    for sub in _subsets(n):
        inst.append(("set_values_subset", sub))
        inst.append(("set_known_values", sub))
        inst.append(("set_lower_bounds", sub))
        inst.append(("set_upper_bounds", sub))
    # "no bound known yet": -inf lower / +inf upper bounds passed to the bulk setters, with and without a coalition list
    inst.append(("set_lower_bounds_inf", ["all"]))
    inst.append(("set_upper_bounds_inf", ["all"]))
    for sub in _subsets(n)[:6]:
        inst.append(("set_lower_bounds_inf", sub))
        inst.append(("set_upper_bounds_inf", sub))
    inst.append(("set_known_values", []))
    inst.append(("set_values_duplicate", [2 ** n - 1]))
    inst.append(("copy", []))
    inst.append(("neg", []))
    inst.append(("getters", []))
    if len(known) == 2 ** n:
        inst.append(("add", []))
    return inst


def scenario(pk, params, inp):
    n = params["n"]
    C = pk.coalitions.Coalition
    x = [inp.real(f"x{S}") for S in range(2 ** n)]
    out = {}
    for idx, (op, arg) in enumerate(instances(params)):
        g = _build(pk, params, inp)
        key = f"{idx}"
        res = {}
        if op == "set_value":
            g.set_value(x[arg[0]], C(arg[0]))
        elif op == "unset_value":
            g.unset_value(C(arg[0]))
        elif op == "reveal_value":
            g.reveal_value(x[arg[0]], C(arg[0]))
        elif op == "unreveal_value":
            g.unreveal_value(C(arg[0]))
        elif op == "set_bound_scalar":
            g.set_lower_bound(x[arg[0]], C(arg[0]))
            res["after_lower"] = _read(pk, g, n)
            g.set_upper_bound(inp.real(f"h{arg[0]}"), C(arg[0]))
        elif op == "set_values_all":
            g.set_values(_arr(pk, x))
        elif op == "set_values_subset":
            g.set_values(_arr(pk, [x[S] for S in arg]), (C(S) for S in arg) if len(arg) == 3 else [C(S) for S in arg])
        elif op == "set_known_values":
            g.set_known_values(iter([x[S] for S in arg]), (C(S) for S in arg) if len(arg) == 2 else [C(S) for S in arg])
        elif op == "set_values_duplicate":
            S = arg[0]
            g.set_values(_arr(pk, [x[S], inp.real(f"h{S}")]), [C(S), C(S)])
        elif op in ("set_lower_bounds", "set_upper_bounds"):
            fn = g.set_lower_bounds if op == "set_lower_bounds" else g.set_upper_bounds
            if arg == ["all"]:
                fn(_arr(pk, x))
            else:
                fn(_arr(pk, [x[S] for S in arg]), (C(S) for S in arg) if len(arg) == 2 else [C(S) for S in arg])
        elif op in ("set_lower_bounds_inf", "set_upper_bounds_inf"):
            import numpy as np
            fn = g.set_lower_bounds if op == "set_lower_bounds_inf" else g.set_upper_bounds
            val = float("-inf") if op == "set_lower_bounds_inf" else float("inf")
            if arg == ["all"]:
                fn(np.full(2 ** n, val))
            else:
                fn(np.full(len(arg), val), [C(S) for S in arg])
        elif op == "copy":
            # every bulk reader is used once BEFORE the copy (whatever a reader memoises is then warm) ...
            _warm = (g.are_values_known(), g.get_known_values(), g.get_lower_bounds(), g.get_upper_bounds())
            c = g.copy()
            res["copy_equal"] = _read(pk, c, n)
            c.set_value(x[0], C(2 ** n - 1))
            c.set_lower_bound(x[1 % 2 ** n], C(0))
            res["orig_after_copy_mutation"] = _read(pk, g, n)
            res["orig_bulk_after_copy_mutation"] = _read_bulk(pk, g, n)
            g.set_value(inp.real("h0"), C(0))
            g.unset_value(C(2 ** n - 1))
            res["copy_after_orig_mutation"] = _read(pk, c, n)
            # ... and AFTER the mutations both objects are read through the bulk accessors as well
            res["copy_bulk_after_orig_mutation"] = _read_bulk(pk, c, n)
        elif op == "neg":
            m = -g
            res["neg"] = _read(pk, m, n)
            res["negneg"] = _read(pk, -m, n)
            res["orig_after_neg"] = _read(pk, g, n)
        elif op == "add":
            h = pk.game.IncompleteCooperativeGame(n)
            h.set_values(_arr(pk, [inp.real(f"h{S}") for S in range(2 ** n)]))
            s = g + h
            res["sum"] = _read(pk, s, n)
            res["orig_after_add"] = _read(pk, g, n)
        elif op == "getters":
            gv, gkv = [], []
            for S in range(2 ** n):
                try:
                    gv.append(["value", g.get_value(C(S))])
                except ValueError:
                    gv.append(["raises", None])
                gkv.append(g.get_known_value(C(S)))
            res["get_value"] = gv
            res["get_known_value"] = gkv
            kv = g.get_known_values()
            res["get_known_values"] = [_nan_to_none(kv[S]) for S in range(2 ** n)]
            res["are_values_known"] = [bool(b) for b in g.are_values_known()]
            res["full"] = bool(g.full)
            try:
                g.get_values()
                res["get_values_all"] = "ok"
            except ValueError:
                res["get_values_all"] = "raises"
            res["intervals"] = [[g.get_interval(C(S))[0], g.get_interval(C(S))[1]] for S in range(2 ** n)]
            res["lower_bounds"] = list(g.get_lower_bounds())
            res["upper_bounds"] = list(g.get_upper_bounds([C(S) for S in range(2 ** n)]))
            # coalition-list arguments: unsorted lists and one-shot iterators
            subs = _getter_lists(n)
            res["sub"] = []
            for lst in subs:
                entry = {"lst": lst}
                entry["lower"] = list(g.get_lower_bounds(iter([C(S) for S in lst])))
                entry["upper"] = list(g.get_upper_bounds([C(S) for S in lst]))
                entry["intervals"] = [[r[0], r[1]] for r in g.get_intervals([C(S) for S in lst])]
                entry["known"] = [bool(b) for b in g.are_values_known(C(S) for S in lst)]
                kv = g.get_known_values([C(S) for S in lst])
                entry["known_values"] = [_nan_to_none(x) for x in kv]
                try:
                    entry["values"] = ["ok"] + list(g.get_values(C(S) for S in lst))
                except ValueError:
                    entry["values"] = ["raises"]
                res["sub"].append(entry)
        res["table"] = _read(pk, g, n)
        out[key] = res
    fresh = pk.game.IncompleteCooperativeGame(n)
    out["fresh"] = _read(pk, fresh, n)
    return out


def _getter_lists(n):
    N = 2 ** n
    lists = [[N - 1, 0], [0]]
    if N >= 4:
        lists += [[2, 1, 3], [3, 3, 1]]
    return lists


def _nan_to_none(v):
    if v is None:
        return None
    if isinstance(v, float) and v != v:
        return None
    try:
        import numpy as np
        if isinstance(v, np.floating) and np.isnan(v):
            return None
    except Exception:  # noqa: BLE001
        pass
    return v


def _inf(v):
    """+1 / -1 for an infinite float or sentinel, 0 otherwise."""
    try:
        from symx.values import _inf_sign
        return _inf_sign(v)
    except Exception:  # noqa: BLE001
        return 0


def _rows_eq(lg, got, want, tag):
    cl = []
    for S, (g, w) in enumerate(zip(got, want)):
        cl.append((f"{tag}:S={S}", lg.And(g[0] == w[0], lg.eq(g[1], w[1]), lg.eq(g[2], w[2]))))
    return cl


def claims(params, inp, out, lg):
    n = params["n"]
    N = 2 ** n
    x = [inp.real(f"x{S}") for S in range(N)]
    h = [inp.real(f"h{S}") for S in range(N)]
    zero = lg.const(0)
    cl = []
    fresh = [[S == 0, zero, zero] for S in range(N)]
    cl += _rows_eq(lg, out["fresh"], fresh, "fresh-game")
    for idx, (op, arg) in enumerate(instances(params)):
        st = _pre(params, inp)
        res = out[f"{idx}"]
        tag = f"{op}[{','.join(map(str, arg))}]"
        want = {S: list(st[S]) for S in range(N)}
        if op in ("set_value", "reveal_value"):
            want[arg[0]] = [True, x[arg[0]], x[arg[0]]]
        elif op in ("unset_value", "unreveal_value"):
            want[arg[0]] = [False, want[arg[0]][1], want[arg[0]][2]]
            # the stored numbers of an unknown row are unspecified by the property: compare flags only for that row
            got = res["table"]
            cl.append((f"{tag}:unknown-after", got[arg[0]][0] is False))
            for S in range(N):
                if S != arg[0]:
                    cl += _rows_eq(lg, [got[S]], [want[S]], f"{tag}:others-untouched:row{S}")
            continue
        elif op == "set_bound_scalar":
            S = arg[0]
            mid = {T: list(st[T]) for T in range(N)}
            mid[S] = [st[S][0], x[S], st[S][2]]
            # scalar setters are raw (used by the bound computers on unknown rows); only rows != S must be untouched
            for T in range(N):
                if T != S:
                    cl += _rows_eq(lg, [res["after_lower"][T]], [mid[T]], f"{tag}:lower:others:row{T}")
                    cl += _rows_eq(lg, [res["table"][T]], [mid[T]], f"{tag}:upper:others:row{T}")
            if not st[S][0]:
                cl.append((f"{tag}:unknown-row-updated", lg.And(lg.eq(res["table"][S][1], x[S]), lg.eq(res["table"][S][2], h[S]),
                                                                 res["table"][S][0] is False)))
            continue
        elif op == "set_values_all":
            want = {S: [True, x[S], x[S]] for S in range(N)}
        elif op == "set_values_subset":
            for S in arg:
                want[S] = [True, x[S], x[S]]
        elif op == "set_values_duplicate":
            S = arg[0]
            got = res["table"]
            cl.append((f"{tag}:known-with-one-of-the-values", lg.And(got[S][0] is True, lg.eq(got[S][1], got[S][2]),
                                                                    lg.Or(lg.eq(got[S][1], x[S]), lg.eq(got[S][1], h[S])))))
            for T in range(N):
                if T != S:
                    cl += _rows_eq(lg, [got[T]], [want[T]], f"{tag}:others-untouched:row{T}")
            continue
        elif op == "set_known_values":
            got = res["table"]
            keep = set(arg) | {0}
            for S in range(N):
                if S in arg:
                    cl += _rows_eq(lg, [got[S]], [[True, x[S], x[S]]], f"{tag}:row{S}")
                elif S == 0:
                    cl += _rows_eq(lg, [got[S]], [[True, zero, zero]], f"{tag}:empty-reset")
                else:
                    cl.append((f"{tag}:dropped:S={S}", got[S][0] is False))
            continue
        elif op in ("set_lower_bounds", "set_upper_bounds"):
            col = 1 if op == "set_lower_bounds" else 2
            targets = range(N) if arg == ["all"] else arg
            for S in targets:
                if not st[S][0]:
                    want[S][col] = x[S]
        elif op in ("set_lower_bounds_inf", "set_upper_bounds_inf"):
            col = 1 if op == "set_lower_bounds_inf" else 2
            sign = -1 if col == 1 else 1
            targets = list(range(N)) if arg == ["all"] else list(arg)
            got = res["table"]
            for S in range(N):
                if st[S][0] or S not in targets:
                    cl += _rows_eq(lg, [got[S]], [st[S]], f"{tag}:known-or-unlisted-row-unaltered:row{S}")
                else:
                    # a listed unknown row: the property only says it stays unknown and its OTHER bound is not touched (whether an
                    # infinite bound is stored as such is the package's choice)
                    other = 3 - col
                    cl.append((f"{tag}:listed-unknown-row-stays-unknown:S={S}", lg.And(got[S][0] is False, lg.eq(got[S][other], st[S][other]))))
            continue
        elif op == "copy":
            cl += _rows_eq(lg, res["copy_equal"], [st[S] for S in range(N)], f"{tag}:equal")
            cl += _rows_eq(lg, res["orig_after_copy_mutation"], [st[S] for S in range(N)], f"{tag}:orig-independent")
            cm = {S: list(st[S]) for S in range(N)}
            cm[N - 1] = [True, x[0], x[0]]
            if N - 1 != 0:
                cm[0] = [cm[0][0], x[1 % N], cm[0][2]]
            else:
                cm[0] = [True, x[1 % N], x[0]]
            cl += _rows_eq(lg, res["copy_after_orig_mutation"], [cm[S] for S in range(N)], f"{tag}:copy-independent")
            for which, bulk, rows in (("orig", res["orig_bulk_after_copy_mutation"], [st[S] for S in range(N)]),
                                      ("copy", res["copy_bulk_after_orig_mutation"], [cm[S] for S in range(N)])):
                cl += _rows_eq(lg, bulk["rows"], rows, f"{tag}:{which}-bulk-accessors-agree")
                cl.append((f"{tag}:{which}-known-values-hide-unknown", bulk["known_values_hide_unknown"] is True))
                # (a scalar bound setter may have split lower / upper of a known row: "the value" is then not defined by the property)
                cl.append((f"{tag}:{which}-known-values", lg.And([lg.eq(kv, rows[S][1]) for S, kv in enumerate(bulk["known_values"])
                                                                 if rows[S][0] and rows[S][1] is rows[S][2]]
                                                                + [all(kv is None for S, kv in enumerate(bulk["known_values"]) if not rows[S][0])])))
            continue
        elif op == "neg":
            neg = [[st[S][0], -st[S][2], -st[S][1]] for S in range(N)]
            cl += _rows_eq(lg, res["neg"], neg, f"{tag}:swapped-negated")
            cl += _rows_eq(lg, res["negneg"], [st[S] for S in range(N)], f"{tag}:involution")
            cl += _rows_eq(lg, res["orig_after_neg"], [st[S] for S in range(N)], f"{tag}:orig-untouched")
            continue
        elif op == "add":
            cl += _rows_eq(lg, res["sum"], [[True, st[S][1] + h[S], st[S][2] + h[S]] for S in range(N)], f"{tag}:sum")
            cl += _rows_eq(lg, res["orig_after_add"], [st[S] for S in range(N)], f"{tag}:orig-untouched")
            continue
        elif op == "getters":
            for S in range(N):
                if st[S][0]:
                    cl.append((f"{tag}:get_value:S={S}", lg.And(res["get_value"][S][0] == "value", lg.eq(res["get_value"][S][1], st[S][1]))))
                    cl.append((f"{tag}:get_known_value:S={S}", lg.eq(res["get_known_value"][S], st[S][1])
                               if res["get_known_value"][S] is not None else False))
                    cl.append((f"{tag}:get_known_values:S={S}", lg.eq(res["get_known_values"][S], st[S][1])
                               if res["get_known_values"][S] is not None else False))
                else:
                    cl.append((f"{tag}:get_value-raises:S={S}", res["get_value"][S][0] == "raises"))
                    cl.append((f"{tag}:get_known_value-none:S={S}", res["get_known_value"][S] is None))
                    cl.append((f"{tag}:get_known_values-none-or-nan:S={S}", res["get_known_values"][S] is None))
                cl.append((f"{tag}:are_values_known:S={S}", res["are_values_known"][S] == st[S][0]))
                cl.append((f"{tag}:interval:S={S}", lg.And(lg.eq(res["intervals"][S][0], st[S][1]), lg.eq(res["intervals"][S][1], st[S][2]),
                                                          lg.eq(res["lower_bounds"][S], st[S][1]), lg.eq(res["upper_bounds"][S], st[S][2]))))
            for e in res["sub"]:
                lst = e["lst"]
                t2 = f"{tag}:list{lst}"
                cl.append((f"{t2}:bounds-in-list-order", lg.And([lg.And(lg.eq(e["lower"][i], st[S][1]), lg.eq(e["upper"][i], st[S][2]),
                                                                       lg.eq(e["intervals"][i][0], st[S][1]), lg.eq(e["intervals"][i][1], st[S][2]))
                                                                for i, S in enumerate(lst)], len(e["lower"]) == len(lst))))
                cl.append((f"{t2}:known-flags", e["known"] == [st[S][0] for S in lst]))
                cl.append((f"{t2}:known-values-or-none", lg.And([(lg.eq(e["known_values"][i], st[S][1]) if e["known_values"][i] is not None else False)
                                                               if st[S][0] else (e["known_values"][i] is None) for i, S in enumerate(lst)])))
                if all(st[S][0] for S in lst):
                    cl.append((f"{t2}:values", lg.And(e["values"][0] == "ok", [lg.eq(e["values"][1 + i], st[S][1]) for i, S in enumerate(lst)]
                                                     if e["values"][0] == "ok" else False)))
                else:
                    cl.append((f"{t2}:values-raise-when-any-unknown", e["values"][0] == "raises"))
            allk = all(st[S][0] for S in range(N))
            cl.append((f"{tag}:full", res["full"] == allk))
            cl.append((f"{tag}:get_values-all", res["get_values_all"] == ("ok" if allk else "raises")))
        cl += _rows_eq(lg, res["table"], [want[S] for S in range(N)], tag)
    return cl


def signature(params, v):
    # one signature per operation (not per argument list)
    return "C17/" + v["name"].split("[")[0].split(":")[0]


def canaries(params, inp, out, lg):
    # false on purpose: a freshly set value would have to differ from what was passed in
    idx = 0
    return [("canary-set-value-ignored", lg.eq(out[f"{idx}"]["table"][0][1], inp.real("l0") + 1))]


def test_vectors(params):
    n = params["n"]
    rnd = random.Random(params["key"])
    vecs = []
    for _ in range(2):
        d = {}
        for S in range(2 ** n):
            for p in "kluxh":
                d[f"{p}{S}"] = Fraction(rnd.randint(-64, 64), 8)
        vecs.append(d)
    return vecs
