"""C20 — saving results is all-or-nothing under a crash."""
from __future__ import annotations

import json
import os
import random
import shutil
import tempfile
from argparse import Namespace
from fractions import Fraction
from pathlib import Path

from .fsmodel import VROOT, FSLayer, ProcessDied

ID = "C20"
HEAVY = True
BUDGET_S = {"quick": 230, "thorough": 2400}
MAX_TASK_S = {"quick": 150, "thorough": 1500}
MAX_DEPTH = 200000
MAX_PATHS = 200000
ASSUMPTIONS = [
    "the crash point is a symbolic integer c: the process dies (or is interrupted by KeyboardInterrupt) immediately before file-system "
    "operation number c of the save; the engine forks on c at every operation, so every crash point of the run is explored",
    "file-system model: open('w') truncates at open; data in user-space buffers is lost at process death; what reached write(2) survives; "
    "os.replace / os.rename are atomic; after a process death no handler (finally / except / __exit__) has any effect; "
    "after an interrupt handlers run normally",
    "payload (matrices, metadata) concrete per task; histories of 0..3 earlier saved runs",
    "the model is validated every run against the real file system: the same scenario is executed in a forked child on a real temporary "
    "directory, dying via os._exit / raising KeyboardInterrupt at the same operation index",
]
OUTSIDE = ["power-loss durability (fsync ordering)", "concurrent writers", "partial write(2)", "interruptions between two Python-level "
           "file-system operations that do not coincide with an operation boundary", "the plot savers (matplotlib)"]
STUBS = ["in-memory file system with crash index (harness/fsmodel.py)"]
XCHECK_IGNORE = ("ops_sample",)
XCHECK_VECTORS = 6


def bounds_text(tier):
    if tier == "quick":
        return "payloads 1x1, 3x5, 12x40 (> one 8 KiB buffer) x histories 0,1,3 x {death, interrupt}: every crash point; + results file = symbolic link into another directory (3x5, 12x40 x histories 1,3)"
    return "payloads 1x1, 3x5, 6x40, 12x40, 30x40 x histories 0..3 x {death, interrupt}: every crash point; + symbolic-link layout"


def tasks(tier, seed):
    out = []
    pays = [(1, 1), (3, 5), (12, 40)] if tier == "quick" else [(1, 1), (3, 5), (6, 40), (12, 40), (30, 40)]
    hists = (0, 1, 3) if tier == "quick" else (0, 1, 2, 3)
    for mode in ("death", "interrupt"):
        for pay in pays:
            for h in hists:
                out.append({"key": f"{mode}/payload{pay[0]}x{pay[1]}/history{h}", "mode": mode, "payload": list(pay), "history": h,
                            "canary": pay == (3, 5) and h == 1})
    # the results file is a symbolic link into another directory (shared storage) that already holds the earlier runs
    for mode in ("death", "interrupt"):
        for pay in ((3, 5), (12, 40)) if tier == "quick" else pays[1:]:
            for h in (1, 3):
                out.append({"key": f"{mode}/payload{pay[0]}x{pay[1]}/history{h}/symlink", "mode": mode, "payload": list(pay), "history": h,
                            "layout": "symlink"})
    return out


def setup(params, inp, lg):
    return []


def _output(pk, rows, cols, tag):
    import numpy as np
    rnd = random.Random(f"{tag}/{rows}x{cols}")
    data = np.array([[rnd.random() * 10 for _ in range(cols)] for _ in range(rows)], dtype=float)
    actions = np.array([[float(rnd.randint(3, 30)) for _ in range(cols)] for _ in range(max(1, rows - 1))], dtype=float)
    if rows > 1:
        actions[-1, -1] = float("nan")
    args = Namespace(func=print, model_dir=Path("/some/dir"), solver="greedy", seed=7, tag=tag)
    return pk.run_save.Output(data, actions, args)


def _classify(content, old, new):
    if content is None:
        state = "old" if old is None else "missing"
    elif old is not None and content == old:
        state = "old"
    elif content == new:
        state = "new"
    else:
        state = "other"
    parses, names = True, []
    if content is not None:
        try:
            names = sorted(json.loads(content.decode("utf-8")).keys())
        except Exception:  # noqa: BLE001
            parses = False
    old_names = sorted(json.loads(old.decode("utf-8")).keys()) if old else []
    kept = (not old_names) or (parses and all(n in names for n in old_names))
    if parses and old and content is not None and kept:
        o, c = json.loads(old.decode("utf-8")), json.loads(content.decode("utf-8"))
        kept = all(json.dumps(o[n], sort_keys=True) == json.dumps(c[n], sort_keys=True) for n in old_names)
    return {"state": state, "parses": parses, "earlier_runs_kept": bool(kept), "size": -1 if content is None else len(content)}


def _history_and_save(pk, params, layer, arm):
    """h earlier saves (never interrupted), then the save under test with the crash hook armed."""
    rows, cols = params["payload"]
    path = Path(VROOT) / "results" / "data.json"
    if params.get("layout") == "symlink":
        store = Path(VROOT) / "store" / "data.json"
        for i in range(params["history"]):
            pk.run_save.save_json(store, f"run{i}", _output(pk, 2, 3, f"old{i}"))
        os.symlink(os.fspath(store), os.fspath(path))
    else:
        for i in range(params["history"]):
            pk.run_save.save_json(path, f"run{i}", _output(pk, 2, 3, f"old{i}"))
    old = layer_read(layer, path)
    arm()
    pk.run_save.save_json(path, "new-run", _output(pk, rows, cols, "new"))
    return old


def layer_read(layer, path):
    p = os.fspath(path)
    if layer.backend == "model":
        return layer.disk.get(layer._res(p))
    rp = layer.r(p)
    if not os.path.exists(rp):
        return None
    with open(rp, "rb") as f:
        return f.read()


def _model_run(pk, params, crash):
    state = {"armed": False, "base": 0}
    layer = FSLayer("model", lambda i: state["armed"] and crash(i - state["base"]), params["mode"])

    def arm():
        state["armed"] = True
        state["base"] = layer.n_ops
    old = None
    outcome = "completed"
    with layer:
        layer.dirs.add(f"{VROOT}/results")
        layer.dirs.add(f"{VROOT}/store")
        try:
            old = _history_and_save(pk, params, layer, arm)
        except ProcessDied:
            outcome = "died"
        except KeyboardInterrupt:
            outcome = "interrupted"
    final = layer.disk.get(layer._res(f"{VROOT}/results/data.json"))
    return layer, old, final, outcome, state["base"]


def _real_run(pk, params, c):
    """Same scenario on the real file system in a forked child (os._exit at the crash point = process death)."""
    root = tempfile.mkdtemp(prefix="c20real_")
    try:
        os.makedirs(os.path.join(root, "results"))
        os.makedirs(os.path.join(root, "store"))
        rd, wr = os.pipe()
        pid = os.fork()
        if pid == 0:
            os.close(rd)
            code = 0
            try:
                state = {"armed": False, "base": 0}
                layer = FSLayer("real", lambda i: state["armed"] and (i - state["base"]) == c, params["mode"], realroot=root)

                def arm():
                    state["armed"] = True
                    state["base"] = layer.n_ops
                    old = layer_read(layer, Path(VROOT) / "results" / "data.json")
                    os.write(wr, json.dumps({"old": None if old is None else old.decode("utf-8"), "base": layer.n_ops}).encode() + b"\n")
                with layer:
                    try:
                        _history_and_save(pk, params, layer, arm)
                    except KeyboardInterrupt:
                        code = 78
                os.write(wr, json.dumps({"ops": layer.n_ops}).encode() + b"\n")
            except BaseException as e:  # noqa: BLE001
                os.write(wr, json.dumps({"child_error": repr(e)}).encode() + b"\n")
                code = 79
            os._exit(code)
        os.close(wr)
        buf = b""
        while True:
            chunk = os.read(rd, 65536)
            if not chunk:
                break
            buf += chunk
        os.close(rd)
        _, status = os.waitpid(pid, 0)
        info = {}
        for line in buf.splitlines():
            info.update(json.loads(line))
        if "child_error" in info:
            raise RuntimeError("real-FS child failed: " + info["child_error"])
        p = os.path.join(root, "results", "data.json")
        final = open(p, "rb").read() if os.path.exists(p) else None
        old = info.get("old")
        code = os.waitstatus_to_exitcode(status)
        outcome = {0: "completed", 77: "died", 78: "interrupted"}.get(code, f"exit{code}")
        return (None if old is None else old.encode("utf-8")), final, outcome, info.get("ops", -1)
    finally:
        shutil.rmtree(root, ignore_errors=True)


_REF = {}


def scenario(pk, params, inp):
    # what a crash-free save produces (and how many operations it takes)
    if inp.mode == "sym":
        if params["key"] not in _REF:          # the crash-free run is deterministic: once per task, not once per path
            ref_layer, old0, new, _, base = _model_run(pk, params, lambda i: False)
            _REF[params["key"]] = (old0, new, ref_layer.n_ops - base)
        old0, new, n_ops = _REF[params["key"]]
        layer, old, final, outcome, base = _model_run(pk, params, lambda i: inp.int_is("c", i))
        res = _classify(final, old if old is not None else old0, new)
        res.update({"outcome": outcome, "n_ops": n_ops, "crash_op": layer.ops[layer.crashed_at] if layer.crashed_at is not None else "-",
                    "ops_sample": layer.ops[base:base + 12]})
        return res
    old0, new, _, n_ops_total = _real_run(pk, params, -1)
    c = -1
    for k in range(0, 100000):
        if inp.int_is("c", k):
            c = k
            break
    old, final, outcome, _ = _real_run(pk, params, c)
    res = _classify(final, old if old is not None else old0, new)
    res.update({"outcome": outcome, "n_ops": -1, "crash_op": "-", "ops_sample": []})
    return res


def claims(params, inp, out, lg):
    return [("results-file-is-old-or-complete-new", out["state"] in ("old", "new"), f"C20/{params['mode']}/not-atomic"),
            ("results-file-parses", out["parses"] is True, f"C20/{params['mode']}/unparsable"),
            ("earlier-runs-never-lost", out["earlier_runs_kept"] is True, f"C20/{params['mode']}/earlier-runs-lost"),
            ("uninterrupted-save-is-complete", out["outcome"] != "completed" or out["state"] == "new")]


def canaries(params, inp, out, lg):
    # false on purpose: the file would have to stay the OLD one at every crash point, i.e. the save never takes effect
    return [("canary-save-never-takes-effect", out["state"] == "old")]


XCHECK_IGNORE = ("ops_sample", "n_ops", "crash_op")


def test_vectors(params):
    return [{"c": Fraction(k)} for k in (0, 1, 2, 3, 7, 10 ** 6)]
