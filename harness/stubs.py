"""Nondeterministic environment stubs shared by harnesses (both worlds).

RngStub duck-types numpy.random.Generator / random.Random.  Continuous draws are fresh inputs
`<prefix>r<k>` constrained to the OPEN interval of the call; discrete draws are explored
exhaustively through inp.choose (symbolic world) or replayed from the recorded choice list
(concrete world).  A draw counter identifies the stream position.
"""
from __future__ import annotations

import itertools

import numpy as np


class _SeedSeq:
    """The part of a numpy Generator that is NOT its bit-stream position: the SeedSequence object with its count of spawned children.
    Restoring `bit_generator.state`, or building two generators from one SeedSequence, does not rewind it."""

    def __init__(self):
        self.n_children_spawned = 0


class RngStub:
    def __init__(self, inp, prefix="", lg=None, seed_seq=None):
        self.inp = inp
        self.prefix = prefix
        self.k = 0            # continuous draws so far
        self.calls = []       # log of (kind, args)
        self.bit_generator = self
        self.seed_seq = seed_seq if seed_seq is not None else _SeedSeq()

    def spawn(self, n_children):
        """numpy >= 1.25: independent child generators; which children one gets depends on how many were spawned before from the same
        SeedSequence - not on the position in the bit stream."""
        first = self.seed_seq.n_children_spawned
        self.seed_seq.n_children_spawned += int(n_children)
        self.calls.append(("spawn", int(n_children), first))
        return [RngStub(self.inp, prefix=f"{self.prefix}child{first + i}_") for i in range(int(n_children))]

    # -- helpers
    def _fresh(self, lo, hi):
        self.k += 1
        x = self.inp.real(f"{self.prefix}r{self.k}")
        self.inp.assume((x > lo) & (x < hi) if self.inp.mode == "sym" else (float(lo) < float(x) < float(hi)))
        return x

    def _many(self, lo, hi, size):
        if size is None:
            return self._fresh(lo, hi)
        shape = (size,) if isinstance(size, (int, np.integer)) else tuple(size)
        n = int(np.prod(shape)) if shape else 1
        arr = np.empty(n, dtype=object if self.inp.mode == "sym" else float)
        for i in range(n):
            arr[i] = self._fresh(lo, hi)
        arr = arr.reshape(shape)
        if self.inp.mode == "sym":
            from symx.arrays import SymArray
            arr = arr.view(SymArray)
        return arr

    # -- numpy Generator API
    def random(self, size=None, *a, **k):
        self.calls.append(("random", size))
        return self._many(0, 1, size)

    def uniform(self, low=0.0, high=1.0, size=None):
        self.calls.append(("uniform", low, high, size))
        return self._many(low, high, size)

    def integers(self, low, high=None, size=None, **k):
        if high is None:
            low, high = 0, low
        self.calls.append(("integers", int(low), int(high), size))
        if size is not None:
            n = int(np.prod(size))
            return np.array([low + self.inp.choose(int(high) - int(low), "integers") for _ in range(n)], dtype=np.int64).reshape(size)
        return np.int64(int(low) + self.inp.choose(int(high) - int(low), "integers"))

    def choice(self, a, size=None, replace=True, p=None, **k):
        pool = list(range(a)) if isinstance(a, (int, np.integer)) else list(a)
        self.calls.append(("choice", len(pool), size))
        if size is None:
            return pool[self.inp.choose(len(pool), "choice")]
        n = int(np.prod(size))
        picks = [pool[self.inp.choose(len(pool), "choice")] for _ in range(n)]
        return np.array(picks).reshape(size)

    def permutation(self, x):
        n = int(x) if isinstance(x, (int, np.integer)) else len(x)
        base = list(range(n)) if isinstance(x, (int, np.integer)) else list(x)
        self.calls.append(("permutation", n))
        perms = list(itertools.permutations(range(n)))
        p = perms[self.inp.choose(len(perms), "permutation")]
        return np.array([base[i] for i in p])

    def shuffle(self, x):
        p = self.permutation(len(x))
        x[:] = [x[i] for i in p]

    # -- random.Random API used by solvers
    def randrange(self, *a):
        r = range(*a)
        return r[self.inp.choose(len(r), "randrange")]

    def randint(self, a, b):
        return a + self.inp.choose(b - a + 1, "randint")


import random as _pyrandom


class PyRandomStub(_pyrandom.Random):
    """random.Random-typed stub (networkx accepts random.Random instances as `seed`): continuous draws are fresh inputs,
    discrete draws are explored exhaustively."""

    def __init__(self, inp, prefix=""):
        super().__init__(0)
        self._stub = RngStub(inp, prefix)

    @property
    def k(self):
        return self._stub.k

    def random(self):
        return self._stub.random()

    def uniform(self, a, b):
        return self._stub.uniform(a, b)

    def randrange(self, *a):
        return self._stub.randrange(*a)

    def randint(self, a, b):
        return self._stub.randint(a, b)

    def choice(self, seq):
        seq = list(seq)
        return seq[self._stub.inp.choose(len(seq), "choice")]

    def shuffle(self, x):
        self._stub.shuffle(x)

    def sample(self, population, k, **kw):
        pool = list(population)
        out = []
        for _ in range(k):
            out.append(pool.pop(self._stub.inp.choose(len(pool), "sample")))
        return out

    def getrandbits(self, k):
        return self._stub.randrange(0, 2 ** k)

    def seed(self, *a, **k):
        pass


def patch_unbound_generator_defaults(pk):
    """`additive(..., weights_dist_fn=np.random.Generator.random)` calls an unbound C method on the generator
    object, which cannot be a stub.  Replace that default (in memory) by the equivalent bound call g.random()."""
    f = pk.generators.additive
    d = list(f.__defaults__)
    for i, x in enumerate(d):
        if x is np.random.Generator.random:
            d[i] = _bound_random
    f.__defaults__ = tuple(d)


def _bound_random(g):
    return g.random()


# ---------------------------------------------------------------- multiprocessing.Pool stub
class PoolStub:
    """In-process model of multiprocessing.Pool with CPython's chunking rule and per-chunk copy semantics.

    starmap/map: materialise the iterable, split into chunks of ceil(len / (4*P)) tasks, DEEP-COPY each chunk as a whole
    (objects shared inside one chunk stay shared - pickle memo semantics - nothing is shared between chunks or with the
    parent), run the chunks in order, return results in input order (results are copied back as well).
    Any other attribute is a harness error, never a verdict."""

    log = []

    def __init__(self, processes=None, *a, **k):
        import os
        self.processes = processes or os.cpu_count() or 1
        if self.processes < 1:
            raise ValueError("Number of processes must be at least 1")

    def __enter__(self):
        return self

    def __exit__(self, *exc):
        return False

    def _chunks(self, tasks, chunksize=None):
        if chunksize is None:
            chunksize, extra = divmod(len(tasks), self.processes * 4)
            if extra:
                chunksize += 1
        if len(tasks) == 0:
            chunksize = 0
        return [tasks[i:i + chunksize] for i in range(0, len(tasks), max(1, chunksize))] if tasks else []

    def _run(self, func, tasks, star, chunksize=None):
        import copy
        out = []
        chunks = self._chunks(list(tasks), chunksize)
        PoolStub.log.append({"processes": self.processes, "tasks": sum(len(c) for c in chunks), "chunks": [len(c) for c in chunks]})
        for chunk in chunks:
            f, local = copy.deepcopy((func, chunk))
            res = [f(*t) if star else f(t) for t in local]
            out.extend(copy.deepcopy(res))
        return out

    def starmap(self, func, iterable, chunksize=None):
        return self._run(func, iterable, True, chunksize)

    def map(self, func, iterable, chunksize=None):
        return self._run(func, iterable, False, chunksize)

    def imap(self, func, iterable, chunksize=1):
        return iter(self._run(func, iterable, False, chunksize))

    def apply(self, func, args=(), kwds=None):
        import copy
        f, a, k = copy.deepcopy((func, args, kwds or {}))
        return copy.deepcopy(f(*a, **k))

    class _Async:
        def __init__(self, v):
            self.v = v

        def get(self, timeout=None):
            return self.v

        def wait(self, timeout=None):
            pass

        def ready(self):
            return True

        def successful(self):
            return True

    def starmap_async(self, func, iterable, chunksize=None, **k):
        return PoolStub._Async(self.starmap(func, iterable, chunksize))

    def map_async(self, func, iterable, chunksize=None, **k):
        return PoolStub._Async(self.map(func, iterable, chunksize))

    def apply_async(self, func, args=(), kwds=None, **k):
        return PoolStub._Async(self.apply(func, args, kwds))

    def close(self):
        pass

    def join(self):
        pass

    def terminate(self):
        pass

    def __getattr__(self, name):
        from symx.values import HarnessError
        raise HarnessError(f"multiprocessing.Pool stub: attribute {name!r} is not modelled")


def install_pool_stub(pk):
    PoolStub.log = []
    for modname in ("gameplay", "evaluation"):
        mod = getattr(pk, modname, None)
        if mod is not None and hasattr(mod, "Pool"):
            mod.Pool = PoolStub
