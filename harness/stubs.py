"""Nondeterministic environment stubs shared by harnesses (both worlds).

RngStub duck-types numpy.random.Generator / random.Random.  Continuous draws are fresh inputs
`<prefix>r<k>` constrained to the OPEN interval of the call; discrete draws are explored
exhaustively through inp.choose (symbolic world) or replayed from the recorded choice list
(concrete world).  A draw counter identifies the stream position.
"""
from __future__ import annotations

import itertools

import numpy as np


class RngStub:
    def __init__(self, inp, prefix="", lg=None):
        self.inp = inp
        self.prefix = prefix
        self.k = 0            # continuous draws so far
        self.calls = []       # log of (kind, args)
        self.bit_generator = self

    # -- helpers
    def _fresh(self, lo, hi):
        self.k += 1
        x = self.inp.real(f"{self.prefix}r{self.k}")
        self.inp.assume((x > lo) & (x < hi) if self.inp.mode == "sym" else (float(lo) < float(x) < float(hi)))
        return x

    def _many(self, lo, hi, size):
        if size is None:
            return self._fresh(lo, hi)
        shape = (size,) if isinstance(size, (int, np.integer)) else tuple(size)
        n = int(np.prod(shape)) if shape else 1
        arr = np.empty(n, dtype=object if self.inp.mode == "sym" else float)
        for i in range(n):
            arr[i] = self._fresh(lo, hi)
        arr = arr.reshape(shape)
        if self.inp.mode == "sym":
            from symx.arrays import SymArray
            arr = arr.view(SymArray)
        return arr

    # -- numpy Generator API
    def random(self, size=None, *a, **k):
        self.calls.append(("random", size))
        return self._many(0, 1, size)

    def uniform(self, low=0.0, high=1.0, size=None):
        self.calls.append(("uniform", low, high, size))
        return self._many(low, high, size)

    def integers(self, low, high=None, size=None, **k):
        if high is None:
            low, high = 0, low
        self.calls.append(("integers", int(low), int(high), size))
        if size is not None:
            n = int(np.prod(size))
            return np.array([low + self.inp.choose(int(high) - int(low), "integers") for _ in range(n)], dtype=np.int64).reshape(size)
        return np.int64(int(low) + self.inp.choose(int(high) - int(low), "integers"))

    def choice(self, a, size=None, replace=True, p=None, **k):
        pool = list(range(a)) if isinstance(a, (int, np.integer)) else list(a)
        self.calls.append(("choice", len(pool), size))
        if size is None:
            return pool[self.inp.choose(len(pool), "choice")]
        n = int(np.prod(size))
        picks = [pool[self.inp.choose(len(pool), "choice")] for _ in range(n)]
        return np.array(picks).reshape(size)

    def permutation(self, x):
        n = int(x) if isinstance(x, (int, np.integer)) else len(x)
        base = list(range(n)) if isinstance(x, (int, np.integer)) else list(x)
        self.calls.append(("permutation", n))
        perms = list(itertools.permutations(range(n)))
        p = perms[self.inp.choose(len(perms), "permutation")]
        return np.array([base[i] for i in p])

    def shuffle(self, x):
        p = self.permutation(len(x))
        x[:] = [x[i] for i in p]

    # -- random.Random API used by solvers
    def randrange(self, *a):
        r = range(*a)
        return r[self.inp.choose(len(r), "randrange")]

    def randint(self, a, b):
        return a + self.inp.choose(b - a + 1, "randint")


def patch_unbound_generator_defaults(pk):
    """`additive(..., weights_dist_fn=np.random.Generator.random)` calls an unbound C method on the generator
    object, which cannot be a stub.  Replace that default (in memory) by the equivalent bound call g.random()."""
    f = pk.generators.additive
    d = list(f.__defaults__)
    for i, x in enumerate(d):
        if x is np.random.Generator.random:
            d[i] = _bound_random
    f.__defaults__ = tuple(d)


def _bound_random(g):
    return g.random()
