"""C07 — more information never hurts: intervals shrink, every gap function is non-increasing."""
from __future__ import annotations

import random
from fractions import Fraction
from math import comb

from . import families as F
from .c08_function import gap_functions

ID = "C07"
HEAVY = False
NONLINEAR = "uf"
BUDGET_S = {"quick": 220, "thorough": 3000}
TIMEOUT_MS = {"quick": 30000, "thorough": 300000}
COMPUTERS = {"superadditive": "sa", "superadditive_cached": "sa", "sam_apx_1": "sam"}
GAPS = ["exploitability", "l1_norm", "l2_norm", "linf_norm"]
ASSUMPTIONS = [
    "exact real arithmetic; hidden game superadditive (SA computers) or superadditive and monotone non-increasing (sam_apx_1)",
    "edge K -> K∪{S} taken by the real history: compute at K, reveal_value(S), compute (the second computation starts from the first's bounds)",
    "gap functions: compositional step - the four real gap callables are run on two abstract boxes L<=L'<=U'<=U (free variables); "
    "with interval monotonicity / ordering proved per edge this implies non-increasing, non-negative gaps on every listed edge; "
    "end-to-end (computer + gaps in one query) additionally on the whole n=3 lattice",
    "l2 gap: SQ/SQRT uninterpreted with monotonicity / zero / positivity axioms instantiated for every pair of widths",
    "np.linalg.norm model (ord 1, 2, inf on vectors)",
]
OUTSIDE = ["float rounding", "edges not listed for n=5", "n>=6", "sam_apx_10/100/1000 (C04 shows raising the repetition count never loosens)"]
STUBS = ["np proxy", "SymArray", "np.linalg.norm model", "SQ/SQRT uninterpreted functions"]


def bounds_text(tier):
    if tier == "quick":
        return ("interval monotonicity: all 12 edges n=3, 640 seeded edges n=4 x 3 computers, 48 edges n=5 x 2; gap functions on abstract nested "
                "boxes n=2..5; end-to-end n=3 all edges x 3 computers x 4 gaps")
    return "interval monotonicity: all 12 + 5120 edges n=3,4 x 3 computers; 2000 edges inside F5 x 3; gap functions on abstract boxes n=2..6"


def _edges(n, fam):
    ex = F.extras(n)
    for K in fam:
        for S in ex:
            if S not in K:
                yield K, S


def tasks(tier, seed):
    out = []

    def add(kind, n, K, S, comp):
        out.append({"key": f"{kind}/n{n}/{comp}/K={','.join(map(str, K))}/+{S}", "kind": kind, "n": n, "K": K, "S": S,
                    "computer": comp})
    fam3, _ = F.family(3, tier, seed)
    fam4, _ = F.family(4, tier, seed)
    e3 = list(_edges(3, fam3))
    e4 = list(_edges(4, fam4))
    # end-to-end (bounds + all four gaps through the real computers) on the whole n=3 lattice
    for comp in COMPUTERS:
        for K, S in e3:
            add("e2e", 3, K, S, comp)
    for K, S in F.sample(e4, 64 if tier == "thorough" else 12, seed, "c07e2e4"):
        add("e2e", 4, K, S, "superadditive_cached")
    # interval monotonicity on every listed edge
    e4s = e4 if tier == "thorough" else F.sample(e4, 640, seed, "c07e4")
    for comp in COMPUTERS:
        for K, S in e4s:
            add("edge", 4, K, S, comp)
    fam5, _ = F.family(5, tier, seed)
    e5 = list(_edges(5, F.sample(fam5, 400, seed, "c07f5")))
    for K, S in F.sample(e5, 2000 if tier == "thorough" else 48, seed, "c07e5"):
        add("edge", 5, K, S, "superadditive_cached")
        add("edge", 5, K, S, "superadditive")
        if tier == "thorough":
            add("edge", 5, K, S, "sam_apx_1")
    # gap functions on abstract nested boxes (compositional step, see ASSUMPTIONS)
    for n in range(2, (6 if tier == "thorough" else 5) + 1):
        fam = [[]] + (F.seeded_sets(n, 3, seed, "c07gap") if n >= 3 else [])
        for K in fam:
            out.append({"key": f"gap/n{n}/K={','.join(map(str, K))}", "kind": "gap", "n": n, "K": K, "S": -1, "computer": "-"})
    return out


def _v(params, inp):
    n = params["n"]
    return [inp.const(0)] + [inp.real(f"v{S}") for S in range(1, 2 ** n)]


def _boxes(params, inp):
    n = params["n"]
    known = set(F.minimal(n)) | set(params["K"])
    b = {}
    for nm in ("L", "U", "L2", "U2"):
        b[nm] = [inp.const(0)] + [inp.real(f"{nm}_{T}") for T in range(1, 2 ** n)]
    for T in known:            # known rows are degenerate in both games
        b["U"][T] = b["L"][T]
        b["L2"][T] = b["L"][T]
        b["U2"][T] = b["L"][T]
    return b


def setup(params, inp, lg):
    n = params["n"]
    if params["kind"] == "gap":
        b = _boxes(params, inp)
        return [lg.And(lg.le(b["L"][T], b["L2"][T]), lg.le(b["L2"][T], b["U2"][T]), lg.le(b["U2"][T], b["U"][T]))
                for T in range(2 ** n)]
    v = _v(params, inp)
    if COMPUTERS[params["computer"]] == "sam":
        return F.sam_constraints(v, n, lg)
    return F.sa_constraints(v, n, lg)


def _snap(pk, g, n, gaps):
    C = pk.coalitions.Coalition
    return {"L": [g.get_lower_bound(C(T)) for T in range(2 ** n)], "U": [g.get_upper_bound(C(T)) for T in range(2 ** n)],
            "gap": {name: fn(g) for name, fn in gaps.items()}}


def _box_game(pk, n, L, U, known):
    import numpy as np
    C = pk.coalitions.Coalition
    g = pk.game.IncompleteCooperativeGame(n)
    for T in sorted(known):
        g.set_value(L[T], C(T))
    for arr, setter in ((L, g.set_lower_bounds), (U, g.set_upper_bounds)):
        a = np.empty(2 ** n, dtype=object if pk.symbolic else float)
        for i, x in enumerate(arr):
            a[i] = x
        setter(a)
    return g


def scenario(pk, params, inp):
    n, K, S = params["n"], params["K"], params["S"]
    C = pk.coalitions.Coalition
    gaps = gap_functions(pk)
    if params["kind"] == "gap":
        b = _boxes(params, inp)
        known = set(F.minimal(n)) | set(K)
        return {"before": _snap(pk, _box_game(pk, n, b["L"], b["U"], known), n, gaps),
                "after": _snap(pk, _box_game(pk, n, b["L2"], b["U2"], known), n, gaps)}
    v = _v(params, inp)
    if params["kind"] == "edge":
        gaps = {}
    g = pk.game.IncompleteCooperativeGame(n, pk.bounds.BOUNDS[params["computer"]])
    known = sorted(set(F.minimal(n)) | set(K))
    g.set_known_values([v[T] for T in known], [C(T) for T in known])
    g.compute_bounds()
    before = _snap(pk, g, n, gaps)
    g.reveal_value(v[S], C(S))
    g.compute_bounds()
    after = _snap(pk, g, n, gaps)
    out = {"before": before, "after": after}
    if len(K) + 1 == len(F.extras(n)):
        out["full"] = True
    return out


def _ref_gaps(L, U, n, lg):
    from symx.values import SymReal, usq, usqrt
    zero = lg.const(0)
    sym = isinstance(zero, SymReal)
    w = [U[T] - L[T] for T in range(2 ** n)]
    e = zero
    l1 = zero
    sq = zero
    for T in range(2 ** n):
        e = e + w[T] * (SymReal(Fraction(1, comb(n, F.popcount(T)))) if sym else 1.0 / comb(n, F.popcount(T)))
        l1 = l1 + abs(w[T])
        sq = sq + (usq(w[T]) if sym else w[T] * w[T])
    l2 = usqrt(sq) if sym else float(sq) ** 0.5
    linf = F.vmax([abs(x) for x in w])
    return {"exploitability": e, "l1_norm": l1, "l2_norm": l2, "linf_norm": linf}


def claims(params, inp, out, lg):
    n = params["n"]
    b, a = out["before"], out["after"]
    zero = lg.const(0)
    cl = []
    if params["kind"] in ("edge", "e2e"):
        for T in range(2 ** n):
            cl.append((f"lower-never-decreases:T={T}", lg.ge(a["L"][T], b["L"][T])))
            cl.append((f"upper-never-increases:T={T}", lg.le(a["U"][T], b["U"][T])))
            cl.append((f"ordered:T={T}", lg.And(lg.le(b["L"][T], b["U"][T]), lg.le(a["L"][T], a["U"][T]))))
        if params["kind"] == "edge":
            return cl
    rb, ra = _ref_gaps(b["L"], b["U"], n, lg), _ref_gaps(a["L"], a["U"], n, lg)
    for gname in GAPS:
        cl.append((f"gap-is-its-definition:{gname}", lg.And(lg.eq(b["gap"][gname], rb[gname]), lg.eq(a["gap"][gname], ra[gname]))))
        cl.append((f"gap-non-increasing:{gname}", lg.le(a["gap"][gname], b["gap"][gname])))
        cl.append((f"gap-non-negative:{gname}", lg.And(lg.ge(a["gap"][gname], zero), lg.ge(b["gap"][gname], zero))))
        if out.get("full"):
            cl.append((f"gap-zero-at-full-knowledge:{gname}", lg.eq(a["gap"][gname], zero)))
        if params["kind"] == "gap":
            degenerate = lg.And([lg.eq(a["L"][T], a["U"][T]) for T in range(2 ** n)])
            cl.append((f"gap-zero-when-all-degenerate:{gname}", lg.Implies(degenerate, lg.eq(a["gap"][gname], zero))))
    return cl


def canaries(params, inp, out, lg):
    if params["kind"] == "edge":
        T = params["S"]
        return [("canary-lower-unchanged-by-reveal", lg.eq(out["after"]["L"][T], out["before"]["L"][T]))]
    # false on purpose: the gap would have to strictly drop by more than 1 on every reveal
    return [("canary-gap-drops-by-one", lg.le(out["after"]["gap"]["l1_norm"] + 1, out["before"]["gap"]["l1_norm"]))]


def test_vectors(params):
    n = params["n"]
    if params["kind"] == "gap":
        rnd = random.Random(params["key"])
        vecs = []
        for _ in range(2):
            d = {}
            for T in range(1, 2 ** n):
                lo = Fraction(rnd.randint(-20, 20), 4)
                a, b2, c = sorted(Fraction(rnd.randint(0, 24), 4) for _ in range(3))
                d[f"L_{T}"], d[f"L2_{T}"], d[f"U2_{T}"], d[f"U_{T}"] = lo, lo + a, lo + b2, lo + c
            vecs.append(d)
        return vecs
    games = F.sam_test_games(n, 5, 3) if COMPUTERS[params["computer"]] == "sam" else F.sa_test_games(n, 5, 3)
    return [{f"v{S}": g[S] for S in range(1, 2 ** n)} for g in games]
