"""C12 — evaluate() records true trajectories; results independent of parallelism."""
from __future__ import annotations

import random
from fractions import Fraction

from . import families as F
from .stubs import PoolStub, install_pool_stub

ID = "C12"
HEAVY = True
NONLINEAR = "uf"
BUDGET_S = {"quick": 230, "thorough": 3000}
TIMEOUT_MS = {"quick": 30000, "thorough": 300000}
MAX_TASK_S = {"quick": 90, "thorough": 900}
KNOWN_SIG = "C12/partB/pool-chunk-rng-replay"
ASSUMPTIONS = [
    "exact real arithmetic; the hidden game of draw d is a vector of fresh variables v(d), superadditive (strictly, in Part B: generic games, "
    "otherwise degenerate additive cases fork at every reset and make different repetitions trivially equal); the 'anyclass' tasks of Part A "
    "put NO constraint on the hidden games (bounds may cross, gaps may be negative)",
    "the instance's random generator is a draw counter carried inside the real ModelInstance (copied when the instance is copied)",
    "multiprocessing.Pool replaced by the in-process model (CPython chunking rule, each chunk deep-copied as a whole = pickle semantics)",
    "random solver: random.Random replaced by an exhaustive nondeterministic choice (Part A)",
]
OUTSIDE = ["real process scheduling and real pickling", "the PPO eval path", "n>=5", "RandomSolver's own stream under P>1"]
STUBS = ["Pool stub", "draw-counter RNG", "np proxy", "SymArray", "choice stub"]


def bounds_text(tier):
    if tier == "quick":
        return "Part A: n=3, R in {1,2}, 4 solvers, step limit 1..3, P=1 (+ any-class games, + one n=4 run); Part B: largest solver, R in {3,6}, P in {1,2,4}"
    return "Part A: n=3, R in {1,2}, 4 solvers, limits 1..3, 4 gaps, n=4 R=1 4 solvers limits 1,2; Part B: R in {3,6,8}, P in {1,2,3,4,16}, n=4 R=4 P in {1,2,3}"


def tasks(tier, seed):
    out = []
    rnd = random.Random(f"c12/{seed}")
    gaps = ["exploitability", "l1_norm", "l2_norm", "linf_norm"]
    for solver in ("largest", "greedy", "greedy_worst", "random"):
        for R in (1, 2):
            for limit in (1, 2, 3):
                if solver == "random" and R == 2 and limit == 3 and tier == "quick":
                    continue
                out.append({"key": f"A/{solver}/R{R}/limit{limit}", "part": "A", "solver": solver, "R": R, "limit": limit, "P": 1, "n": 3,
                            "gap": rnd.choice(gaps if tier == "thorough" else gaps[:2])})
    # four players (quick: one configuration; thorough: all four solvers, two limits)
    for solver in (("largest",) if tier == "quick" else ("largest", "greedy", "greedy_worst", "random")):
        for limit in ((2,) if tier == "quick" else (1, 2)):
            out.append({"key": f"A/{solver}/R1/limit{limit}/n4", "part": "A", "solver": solver, "R": 1, "limit": limit, "P": 1, "n": 4,
                        "gap": "exploitability"})
    for i, t in enumerate(out):
        if t["part"] == "A" and t["n"] == 3 and i % 2 == 1:
            t["decoy"] = True
            t["key"] += "/decoy"
    # seven players: 119 explorable coalitions - more than one machine word of ids / bit positions (quick: one run, strict superadditivity
    # keeps it to a single path)
    out.append({"key": "A/largest/R1/limit2/n7", "part": "A", "solver": "largest", "R": 1, "limit": 2, "P": 1, "n": 7, "gap": "l1_norm", "strict": True})
    if tier == "thorough":
        out.append({"key": "A/largest/R1/limit3/n7/exploitability", "part": "A", "solver": "largest", "R": 1, "limit": 3, "P": 1, "n": 7, "gap": "exploitability", "strict": True})
        for P in (1, 2, 3):
            out.append({"key": f"B/largest/R4/P{P}/n4", "part": "B", "solver": "largest", "R": 4, "limit": 2, "P": P, "n": 4, "gap": "l1_norm"})
    # hidden games of ANY class (the recorded gap may be negative when the bounds cross): the rows must still be the true gaps
    for solver in ("largest", "greedy"):
        for limit in (1, 2):
            out.append({"key": f"A-anyclass/{solver}/R1/limit{limit}", "part": "A", "solver": solver, "R": 1, "limit": limit, "P": 1, "n": 3,
                        "gap": "exploitability", "anyclass": True})
    for R in ((3, 6) if tier == "quick" else (3, 6, 8)):
        for P in ((1, 2, 4) if tier == "quick" else (1, 2, 3, 4, 16)):
            out.append({"key": f"B/largest/R{R}/P{P}", "part": "B", "solver": "largest", "R": R, "limit": 2, "P": P, "n": 3, "gap": "exploitability"})
    return out


def _draw(inp, d, n):
    return [inp.const(0)] + [inp.real(f"d{d}v{S}") for S in range(1, 2 ** n)]


def _ndraws(params):
    return 3 * params["R"] + 3


def setup(params, inp, lg):
    n = params["n"]
    ass = []
    for d in range(1, _ndraws(params) + 1):
        v = _draw(inp, d, n)
        if params.get("anyclass"):
            continue
        if n >= 7 and d not in (1, 2, 3):
            continue          # only the draws a single repetition can see are constrained (the others never enter a term)
        ass += F.strict_sa_constraints(v, n, lg) if (params["part"] == "B" or params.get("strict")) else F.sa_constraints(v, n, lg)
    return ass


class _CounterRng:
    """Stands for the instance's numpy Generator: the stream position is its only state."""

    def __init__(self):
        self.k = 0


class _ChoiceRandom:
    def __init__(self, inp):
        self.inp = inp

    def choice(self, seq):
        seq = list(seq)
        return seq[self.inp.choose(len(seq), "Random.choice")]


def _full(pk, n, vals):
    import numpy as np
    g = pk.game.IncompleteCooperativeGame(n)
    a = np.empty(2 ** n, dtype=object if pk.symbolic else float)
    for i, x in enumerate(vals):
        a[i] = x
    g.set_values(a)
    return g


def _ref_gap(pk, n, vals, known, gapf, comp):
    C = pk.coalitions.Coalition
    g = pk.game.IncompleteCooperativeGame(n, comp)
    ks = sorted(known)
    g.set_known_values([vals[S] for S in ks], [C(S) for S in ks])
    g.compute_bounds()
    return gapf(g)


def _run_evaluate(pk, params, inp, P):
    n, R, limit = params["n"], params["R"], params["limit"]
    install_pool_stub(pk)
    used = []

    def gen(nn, rng):
        rng.k += 1
        used.append(rng.k)
        return _full(pk, nn, _draw(inp, rng.k, nn))
    pk.generators.GENERATORS["__sym__"] = gen
    inst = pk.run_model.ModelInstance(number_of_players=n, game_class="superadditive_cached", game_generator="__sym__",
                                      gap_function=params["gap"], run_steps_limit=limit, seed=5, parallel_environments=P)
    inst.game_generator_rng = _CounterRng()
    solver = pk.solvers.SOLVERS[params["solver"]](inst)
    if params["solver"] == "random":
        solver._generator = _ChoiceRandom(inp)
    gaps, actions = pk.evaluation.evaluate(solver.next_step, inst.get_env, R, limit, inst.gap_function_callable, P, solver.after_reset)
    return {"gaps": [[gaps[t][j] for j in range(R)] for t in range(limit + 1)],
            "actions": [[actions[t][j] for j in range(R)] for t in range(limit)],
            "shape": [list(gaps.shape), list(actions.shape)], "draws_used": list(used), "pool": list(PoolStub.log)}


def _decoy_evaluate(pk, params):
    """ANOTHER evaluation (other hidden games, other solver, other repetition count) run first in the same process: whatever it leaves
    behind at module level must not show in the run under test."""
    n = params["n"]
    install_pool_stub(pk)

    def gen(nn, rng):
        import numpy as np
        g = pk.game.IncompleteCooperativeGame(nn)
        g.set_values(np.array([float(F.popcount(S) ** 2 + (S % 2)) for S in range(2 ** nn)], dtype=object if pk.symbolic else float))
        return g
    pk.generators.GENERATORS["__decoy__"] = gen
    inst = pk.run_model.ModelInstance(number_of_players=n, game_class="superadditive_cached", game_generator="__decoy__",
                                      gap_function=params["gap"], run_steps_limit=2, seed=9, parallel_environments=1)
    inst.game_generator_rng = _CounterRng()
    solver = pk.solvers.SOLVERS["greedy" if params["solver"] == "largest" else "largest"](inst)
    pk.evaluation.evaluate(solver.next_step, inst.get_env, 2, 2, inst.gap_function_callable, 1, solver.after_reset)


def scenario(pk, params, inp):
    n, R, limit = params["n"], params["R"], params["limit"]
    if params.get("decoy"):
        _decoy_evaluate(pk, params)
    gapf = pk.run_model.GAP_FUNCTIONS[params["gap"]]
    comp = pk.bounds.BOUNDS["superadditive_cached"]
    out = {"run": _run_evaluate(pk, params, inp, params["P"])}
    if params["part"] == "B" and params["P"] != 1:
        out["run1"] = _run_evaluate(pk, params, inp, 1)
    # reference trajectories for every draw index along the recorded actions of each column
    D = _ndraws(params)
    ex = F.extras(n)
    refs = []
    for j in range(R):
        acts = []
        for t in range(limit):
            a = out["run"]["actions"][t][j]
            acts.append(int(float(a)) if not hasattr(a, "c") else int(a.c))
        per_draw = []
        for d in range(1, D + 1):
            v = _draw(inp, d, n)
            rows = [_ref_gap(pk, n, v, set(F.minimal(n)), gapf, comp)]
            known = set(F.minimal(n))
            for a in acts:
                if a in ex and a not in known:
                    known = known | {a}
                    rows.append(_ref_gap(pk, n, v, known, gapf, comp))
                else:
                    rows.append(None)
            per_draw.append(rows)
        refs.append({"acts": acts, "per_draw": per_draw})
    out["refs"] = refs
    return out


def claims(params, inp, out, lg):
    n, R, limit, P = params["n"], params["R"], params["limit"], params["P"]
    ex = F.extras(n)
    run = out["run"]
    D = _ndraws(params)
    cl = [("shapes", run["shape"] == [[limit + 1, R], [limit, R]])]

    def is_traj(j, d):
        rows = out["refs"][j]["per_draw"][d - 1]
        parts = []
        for t in range(limit + 1):
            if rows[t] is None:
                return False
            parts.append(lg.eq(run["gaps"][t][j], rows[t]))
        return lg.And(parts)
    for j in range(R):
        acts = out["refs"][j]["acts"]
        if params["part"] == "A":
            d = 3 * j + 3          # env construction draws twice, eval_one's reset once more: repetition j plays draw 3j+3
            rows = out["refs"][j]["per_draw"][d - 1]
            cl.append((f"row0-is-gap-at-minimal-information:rep={j}", lg.eq(run["gaps"][0][j], rows[0])))
            # the episode may end early (done): the rows / actions after that point stay 0 by construction
            taken = acts.index(0) if 0 in acts else len(acts)
            for t in range(taken):
                if rows[t + 1] is None:
                    cl.append((f"action-explorable-and-new:rep={j}:t={t}", False))
                    break
                cl.append((f"row-is-gap-after-chosen-coalitions:rep={j}:t={t}", lg.eq(run["gaps"][t + 1][j], rows[t + 1])))
            if taken < limit:
                zero = lg.const(0)
                cl.append((f"early-end-only-when-nothing-to-gain:rep={j}",
                           lg.And(lg.Or(taken == len(ex), lg.eq(run["gaps"][taken][j], zero)),
                                  [lg.eq(run["gaps"][t + 1][j], zero) for t in range(taken, limit)], all(a == 0 for a in acts[taken:]))))
            cl.append((f"actions-distinct-explorable:rep={j}", len(set(acts[:taken])) == taken and all(a in ex for a in acts[:taken])))
        else:
            cl.append((f"column-is-a-true-trajectory-of-some-draw:rep={j}", lg.Or([is_traj(j, d) for d in range(1, D + 1)])))
    if params["part"] == "B":
        used = run["draws_used"]
        # independence: repetition j must play its own draw (P=1 layout: 3j+3); under a pool the same must hold
        for j in range(R):
            cl.append((f"repetition-plays-its-own-draw:rep={j}", is_traj(j, 3 * j + 3), KNOWN_SIG if P > 1 else None))
        if "run1" in out:
            same = lg.And([lg.eq(a, b) for ra, rb in zip(run["gaps"], out["run1"]["gaps"]) for a, b in zip(ra, rb)])
            cl.append(("same-result-for-every-number-of-processes", same, KNOWN_SIG))
    return cl


def canaries(params, inp, out, lg):
    if params["part"] != "A":
        return []
    # false on purpose: the first recorded gap would have to be zero
    return [("canary-initial-gap-zero", lg.eq(out["run"]["gaps"][0][0], lg.const(0)))]


CANARY_TASKS = 3
XCHECK_IGNORE = ("run.pool", "run1.pool")


def test_vectors(params):
    n = params["n"]
    vecs = []
    for t in range(2):
        d = {}
        games = F.sa_test_games(n, 51 + t, 3)
        rnd = random.Random(f"{params['key']}/{t}")
        for k in range(1, _ndraws(params) + 1):
            if params["part"] == "B":
                w = [Fraction(rnd.randint(1, 16), 4) for _ in range(n)]
                for S in range(1, 2 ** n):
                    tot = sum(w[i] for i in range(n) if S >> i & 1)
                    d[f"d{k}v{S}"] = tot * tot + Fraction(F.popcount(S) - 1, 8) * (F.popcount(S) > 1)
            else:
                for S in range(1, 2 ** n):
                    d[f"d{k}v{S}"] = games[(k + t) % 3][S]
        vecs.append(d)
    return vecs
