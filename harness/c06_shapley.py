"""C06 — the Shapley value is the average marginal contribution over all orderings."""
from __future__ import annotations

import itertools
import random
from fractions import Fraction
from math import factorial

from . import families as F

ID = "C06"
HEAVY = False
LOGIC = "QF_LRA"
BUDGET_S = {"quick": 150, "thorough": 1500}
TIMEOUT_MS = {"quick": 20000, "thorough": 300000}
ASSUMPTIONS = ["exact real arithmetic", "game values arbitrary reals with v(empty)=0",
               "reference = explicit enumeration of all n! orderings with exact fraction coefficients (n<=7)",
               "homogeneity for the constants -3, 1/2, 7 (a symbolic scalar would make the query bilinear)"]
OUTSIDE = ["float rounding", "orderings definition for n>=8 (consequences asserted directly up to n=10)", "n>=11"]
STUBS = ["np proxy", "SymArray"]


def bounds_text(tier):
    if tier == "quick":
        return "orderings n=2..7, and again for n after another player count was evaluated first in the same interpreter (8 size pairs); efficiency/additivity/homogeneity/null/entry-point n=2..9; relabelling all perms n<=4, transpositions n<=6"
    return "orderings n=2..7; consequences n=2..10; relabelling all perms n<=5, adjacent transpositions n<=8"


def tasks(tier, seed):
    out = []

    def add(kind, n, **kw):
        d = {"key": f"{kind}/n{n}" + "".join(f"/{k}={v}" for k, v in sorted(kw.items())), "kind": kind, "n": n}
        d.update(kw)
        out.append(d)
    nmax_ord = 7
    nmax = 10 if tier == "thorough" else 9
    for n in range(2, nmax_ord + 1):
        add("orderings", n)
    for n in range(2, nmax + 1):
        add("efficiency", n)
        add("additivity", n)
        add("homogeneity", n)
        for i in sorted({0, n // 2, n - 1}):
            add("null", n, player=i)
    # state shared between calls with different player counts: a bigger (or smaller) game evaluated FIRST in the same interpreter
    # ... or ANOTHER game of the same player count (a memo keyed by the size alone would hand its numbers to the second game)
    pairs = [(7, 4), (6, 3), (5, 4), (4, 5), (3, 6), (8, 5), (5, 2), (9, 6), (3, 3), (4, 4), (5, 5), (6, 6)] + ([(10, 7), (7, 6), (6, 7), (10, 3), (7, 7)] if tier == "thorough" else [])
    for first, n in pairs:
        add("after-other-size", n, first=first)
    for n in range(2, (5 if tier == "thorough" else 4) + 1):
        for perm in itertools.permutations(range(n)):
            if list(perm) != list(range(n)):
                add("relabel", n, perm=list(perm))
    for n in range(5 if tier == "quick" else 6, (8 if tier == "thorough" else 6) + 1):
        for i in range(n - 1):
            perm = list(range(n))
            perm[i], perm[i + 1] = perm[i + 1], perm[i]
            add("relabel", n, perm=perm)
    return out


def _vals(inp, n, p="v"):
    return [inp.const(0)] + [inp.real(f"{p}{S}") for S in range(1, 2 ** n)]


def setup(params, inp, lg):
    n = params["n"]
    v = _vals(inp, n)
    if params["kind"] == "additivity":
        _vals(inp, n, "w")
    if params["kind"] == "null":
        i = params["player"]
        return [lg.eq(v[S | (1 << i)], v[S]) for S in range(2 ** n) if not S >> i & 1]
    return []


def _game(pk, n, vals):
    import numpy as np
    g = pk.game.IncompleteCooperativeGame(n)
    a = np.empty(2 ** n, dtype=object if pk.symbolic else float)
    for i, x in enumerate(vals):
        a[i] = x
    g.set_values(a)
    return g


def _phi(pk, g):
    allp = list(pk.shapley.compute_shapley_value(g))
    single = [pk.shapley.compute_shapley_value_for_player(i, g) for i in range(g.number_of_players)]
    return {"all": allp, "single": single}


def scenario(pk, params, inp):
    n = params["n"]
    if params["kind"] == "after-other-size":
        m = params["first"]
        other = _game(pk, m, [inp.const(0)] + [inp.const(bin(S).count("1") ** 2) for S in range(1, 2 ** m)])
        list(pk.shapley.compute_shapley_value(other))
        pk.shapley.compute_shapley_value_for_player(0, other)
    v = _vals(inp, n)
    g = _game(pk, n, v)
    out = {"v": _phi(pk, g)}
    k = params["kind"]
    if k == "additivity":
        w = _vals(inp, n, "w")
        gw = _game(pk, n, w)
        out["w"] = _phi(pk, gw)
        out["sum"] = _phi(pk, g + gw)
    elif k == "homogeneity":
        for name, c in (("m3", -3), ("half", Fraction(1, 2)), ("seven", 7)):
            cc = inp.const(c)
            out[name] = _phi(pk, _game(pk, n, [cc * x for x in v]))
    elif k == "relabel":
        perm = params["perm"]

        def img(S):
            T = 0
            for i in range(n):
                if S >> i & 1:
                    T |= 1 << perm[i]
            return T
        # w(S) = v(perm(S)): player i of w plays the role of player perm[i] of v
        out["w"] = _phi(pk, _game(pk, n, [v[img(S)] for S in range(2 ** n)]))
    return out


def _ordering_reference(n, v, zero):
    """phi_i = (1/n!) * sum over all orderings of the marginal contribution of i."""
    coef = [dict() for _ in range(n)]
    for order in itertools.permutations(range(n)):
        S = 0
        for p in order:
            coef[p][S | (1 << p)] = coef[p].get(S | (1 << p), 0) + 1
            coef[p][S] = coef[p].get(S, 0) - 1
            S |= 1 << p
    nf = factorial(n)
    ref = []
    for i in range(n):
        acc = zero
        for S, c in sorted(coef[i].items()):
            if c and S:
                acc = acc + v[S] * _c(zero, Fraction(c, nf))
        ref.append(acc)
    return ref


def _c(zero, f):
    """constant in the current world (SymReal or float)."""
    from symx.values import SymReal
    return SymReal(f) if isinstance(zero, SymReal) else float(f)


def claims(params, inp, out, lg):
    n = params["n"]
    v = _vals(inp, n)
    zero = lg.const(0)
    k = params["kind"]
    pv = out["v"]
    cl = [("entry-points-agree", lg.And([lg.eq(a, b) for a, b in zip(pv["all"], pv["single"])])),
          ("count", len(pv["all"]) == n)]
    if k in ("orderings", "after-other-size"):
        ref = _ordering_reference(n, v, zero)
        for i in range(n):
            cl.append((f"orderings-average:i={i}", lg.eq(pv["all"][i], ref[i])))
    elif k == "efficiency":
        acc = zero
        for x in pv["all"]:
            acc = acc + x
        cl.append(("efficiency", lg.eq(acc, v[2 ** n - 1])))
    elif k == "additivity":
        for i in range(n):
            cl.append((f"additive:i={i}", lg.eq(out["sum"]["all"][i], pv["all"][i] + out["w"]["all"][i])))
    elif k == "homogeneity":
        for name, c in (("m3", -3), ("half", Fraction(1, 2)), ("seven", 7)):
            for i in range(n):
                cl.append((f"homogeneous-{name}:i={i}", lg.eq(out[name]["all"][i], pv["all"][i] * _c(zero, Fraction(c)))))
    elif k == "null":
        cl.append(("null-player-zero", lg.eq(pv["all"][params["player"]], zero)))
    elif k == "relabel":
        perm = params["perm"]
        for i in range(n):
            cl.append((f"relabel:i={i}", lg.eq(out["w"]["all"][i], pv["all"][perm[i]])))
    return cl


def canaries(params, inp, out, lg):
    n = params["n"]
    v = _vals(inp, n)
    acc = lg.const(0)
    for x in out["v"]["all"]:
        acc = acc + x
    return [("canary-sum-is-twice-grand", lg.eq(acc, v[2 ** n - 1] + v[2 ** n - 1]))]


def test_vectors(params):
    n = params["n"]
    rnd = random.Random(params["key"])
    vecs = []
    for t in range(2):
        d = {}
        for S in range(1, 2 ** n):
            d[f"v{S}"] = Fraction(rnd.randint(-64, 64), 8)
            d[f"w{S}"] = Fraction(rnd.randint(-64, 64), 8)
        if params["kind"] == "null":
            i = params["player"]
            for S in range(2 ** n):
                if not S >> i & 1:
                    d[f"v{S | (1 << i)}"] = d.get(f"v{S}", Fraction(0))
        vecs.append(d)
    return vecs
