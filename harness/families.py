"""Structural skeletons (knowledge sets), game classes and definition-level references."""
from __future__ import annotations

import itertools
import random
from fractions import Fraction
from functools import lru_cache


def popcount(x):
    return bin(x).count("1")


def grand(n):
    return 2 ** n - 1


def minimal(n):
    return [0] + [1 << i for i in range(n)] + [grand(n)]


def extras(n):
    m = set(minimal(n))
    return [S for S in range(2 ** n) if S not in m]


def subsets_of(S):
    """All sub-masks of S (including 0 and S)."""
    sub = S
    out = []
    while True:
        out.append(sub)
        if sub == 0:
            break
        sub = (sub - 1) & S
    return out


def disjoint_pairs(n):
    for A in range(1, 2 ** n):
        for B in range(A + 1, 2 ** n):
            if A & B == 0:
                yield A, B


# ------------------------------------------------------------------ knowledge-set families
def all_knowledge_sets(n):
    ex = extras(n)
    for r in range(len(ex) + 1):
        for c in itertools.combinations(ex, r):
            yield list(c)


def layer_sets(n):
    """'all coalitions of sizes in T known' for T subset of {2..n-1}."""
    sizes = list(range(2, n))
    out = []
    for r in range(len(sizes) + 1):
        for T in itertools.combinations(sizes, r):
            out.append([S for S in extras(n) if popcount(S) in T])
    return out


def seeded_sets(n, count, seed, tag=""):
    rnd = random.Random(f"{seed}/{n}/{tag}")
    ex = extras(n)
    out = []
    seen = set()
    tries = 0
    while len(out) < count and tries < 50 * count + 100:
        tries += 1
        p = rnd.choice([0.25, 0.5, 0.75])
        K = tuple(S for S in ex if rnd.random() < p)
        if K in seen:
            continue
        seen.add(K)
        out.append(list(K))
    return out


def family(n, tier, seed, purpose="sound"):
    """Knowledge sets (lists of extra known coalitions) per DESIGN §2.3. Returns (list, description)."""
    ex = extras(n)
    if n <= 4:
        return list(all_knowledge_sets(n)), f"all {2 ** len(ex)} knowledge sets at n={n}"
    if n == 5:
        small = [list(c) for r in range(3) for c in itertools.combinations(ex, r)]
        large = [[S for S in ex if S not in c] for r in range(3) for c in itertools.combinations(ex, r)]
        lay = layer_sets(5)
        rnd = seeded_sets(5, 1000 if tier == "thorough" else 120, seed, purpose)
        fam = _uniq(small + large + lay + rnd)
        if tier == "quick":
            # quick: layers, all with <= 1 extra / >= 25 extras, a slice of the rest
            sm1 = [k for k in small if len(k) <= 1]
            lg1 = [k for k in large if len(k) >= len(ex) - 1]
            fam = _uniq(lay + sm1 + lg1 + rnd)
        return fam, f"F5 family at n=5: {len(fam)} listed knowledge sets (<=2 / >=24 extras, size layers, seeded from VERIF_SEED={seed})"
    if n == 6:
        base = [[]] + layer_sets(6) + [[S for S in ex if popcount(S) != k] for k in range(2, 6)]
        cnt = 200 if tier == "thorough" else 6
        fam = _uniq(base + seeded_sets(6, max(0, cnt - len(base)), seed, purpose))
        return fam[:cnt], f"{min(cnt, len(fam))} listed knowledge sets at n=6 (minimal, size layers, seeded)"
    if n == 7:
        base = [[]] + layer_sets(7)[:8]
        fam = _uniq(base + seeded_sets(7, 8, seed, purpose))
        return fam[:16], "16 listed knowledge sets at n=7"
    if n == 8:
        base = [[]] + [[S for S in ex if popcount(S) == k] for k in range(2, 8)]
        return base, "minimal and single-size-layer knowledge sets at n=8"
    raise ValueError(n)


def _uniq(lst):
    seen, out = set(), []
    for k in lst:
        t = tuple(sorted(k))
        if t not in seen:
            seen.add(t)
            out.append(list(t))
    return out


def sample(lst, count, seed, tag=""):
    if len(lst) <= count:
        return list(lst)
    rnd = random.Random(f"{seed}/{tag}")
    idx = sorted(rnd.sample(range(len(lst)), count))
    return [lst[i] for i in idx]


# ------------------------------------------------------------------ game classes
def sa_constraints(v, n, lg):
    """Textbook superadditivity: v(A)+v(B) <= v(A∪B) for disjoint non-empty A, B."""
    return [lg.le(v[A] + v[B], v[A | B]) for A, B in disjoint_pairs(n)]


def strict_sa_constraints(v, n, lg, margin=0):
    return [lg.lt(v[A] + v[B] + margin, v[A | B]) for A, B in disjoint_pairs(n)]


def mono_dec_constraints(v, n, lg):
    """Monotone non-increasing along inclusion: S ⊆ T ⇒ v(S) >= v(T) (cover relations suffice)."""
    out = []
    for T in range(1, 2 ** n):
        for i in range(n):
            if T >> i & 1:
                out.append(lg.ge(v[T & ~(1 << i)], v[T]))
    return out


def sam_constraints(v, n, lg):
    return sa_constraints(v, n, lg) + mono_dec_constraints(v, n, lg)


# ------------------------------------------------------------------ value helpers working in both worlds
def vmax(items):
    items = list(items)
    from symx.values import SymReal, smax
    if any(isinstance(x, SymReal) for x in items):
        return smax(items)
    return max(items)


def vmin(items):
    items = list(items)
    from symx.values import SymReal, smin
    if any(isinstance(x, SymReal) for x in items):
        return smin(items)
    return min(items)


def vabs(x):
    return abs(x)


# ------------------------------------------------------------------ references from the definitions
@lru_cache(maxsize=None)
def _partitions(S, Kt):
    """All set partitions of mask S into blocks from the tuple Kt (blocks non-empty)."""
    if S == 0:
        return ((),)
    low = S & -S
    out = []
    for B in Kt:
        if B & low and (B & ~S) == 0:
            for rest in _partitions(S & ~B, Kt):
                out.append((B,) + rest)
    return tuple(out)


def lref(Kset, S, v, zero=0):
    """max over partitions of S into known non-empty blocks of the sum of their values."""
    if S == 0:
        return zero
    Kt = tuple(sorted(k for k in Kset if k != 0))
    cands = []
    for part in _partitions(S, Kt):
        acc = zero
        for B in part:
            acc = acc + v[B]
        cands.append(acc)
    return vmax(cands)


def uref(Kset, S, v, n, zero=0):
    """min over known T ⊋ S of v(T) - lref(T \\ S)."""
    cands = []
    for T in sorted(Kset):
        if T != S and (T & S) == S:
            cands.append(v[T] - lref(Kset, T & ~S, v, zero))
    return vmin(cands)


# ------------------------------------------------------------------ concrete test vectors (cross-check inputs)
def sa_test_games(n, seed, count=3):
    """Exactly representable superadditive games: |S|^2, additive+negative shift, seeded supermodular."""
    games = []
    games.append({S: Fraction(popcount(S) ** 2) for S in range(2 ** n)})
    games.append({S: Fraction(popcount(S)) for S in range(2 ** n)})
    rnd = random.Random(f"sa/{seed}/{n}")
    for _ in range(max(0, count - 2)):
        w = [Fraction(rnd.randint(1, 16), 4) for _ in range(n)]
        a = [Fraction(rnd.randint(-12, 12), 4) for _ in range(n)]
        g = {}
        for S in range(2 ** n):
            tot = sum(w[i] for i in range(n) if S >> i & 1)
            g[S] = tot * tot + sum(a[i] for i in range(n) if S >> i & 1)
        games.append(g)
    return games[:count]


def random_sa_games(n, seed, count=3, grid=2):
    """Generic (unstructured) superadditive games: v(S) = best split of S + a random non-negative increment, exactly representable."""
    rnd = random.Random(f"rsa/{seed}/{n}")
    games = []
    for _ in range(count):
        g = {0: Fraction(0)}
        for S in sorted(range(1, 2 ** n), key=popcount):
            best = Fraction(0) if popcount(S) > 1 else Fraction(rnd.randint(-6, 6), grid)
            A = (S - 1) & S
            while A:
                B = S & ~A
                if A < B:
                    best = max(best, g[A] + g[B])
                A = (A - 1) & S
            g[S] = best + (Fraction(rnd.randint(0, 9), grid) if popcount(S) > 1 else 0)
        games.append(g)
    return games


def sam_test_games(n, seed, count=3):
    """Superadditive and monotone non-increasing games: -min(k,|S|), -max of singleton weights, 0."""
    games = [{S: Fraction(-min(2, popcount(S))) for S in range(2 ** n)}]
    rnd = random.Random(f"sam/{seed}/{n}")
    for _ in range(count - 1):
        w = [Fraction(rnd.randint(1, 16), 8) for _ in range(n)]
        games.append({S: -max([w[i] for i in range(n) if S >> i & 1], default=Fraction(0)) for S in range(2 ** n)})
    return games[:count]


def is_sa_concrete(g, n):
    return all(g[A] + g[B] <= g[A | B] for A, B in disjoint_pairs(n))
