"""File-system interception layer for C20.

One layer, two back ends:
  * 'model': an in-memory POSIX-like file system with process-crash semantics (open('w') truncates at open; user-space
    buffers are lost at a crash; what reached write(2) survives; rename/replace are atomic);
  * 'real' : the same interception points forwarded to the real file system under a temporary directory.
Every intercepted Python-level call is an *operation*; `crash(i)` decides whether the process dies / is interrupted
immediately before operation i.  Only paths under VROOT are intercepted, everything else passes through.
"""
from __future__ import annotations

import builtins
import errno
import io
import os
import stat as _stat
import tempfile

VROOT = "/vfs"
BUFSZ = io.DEFAULT_BUFFER_SIZE


class ProcessDied(BaseException):
    """Unwinds the interpreter after a modelled process death; no handler may have any effect afterwards."""


def _is_v(p):
    try:
        p = os.fspath(p)
    except TypeError:
        return False
    if isinstance(p, bytes):
        p = p.decode()
    return p == VROOT or p.startswith(VROOT + "/")


class _VFile:
    def __init__(self, layer, path, mode, fd):
        self.layer, self.path, self.mode, self.fd = layer, path, mode, fd
        self.binary = "b" in mode
        self.buf = b""
        self.closed = False
        self.name = path
        self.pos = 0

    # context manager
    def __enter__(self):
        return self

    def __exit__(self, *exc):
        self.close()
        return False

    def fileno(self):
        return self.fd

    def writable(self):
        return any(c in self.mode for c in "wax+")

    def readable(self):
        return "r" in self.mode or "+" in self.mode

    def write(self, data):
        self.layer.tick(f"write:{os.path.basename(self.path)}")
        if self.layer.dead:
            return len(data)
        b = data if isinstance(data, (bytes, bytearray)) else str(data).encode("utf-8")
        self.buf += bytes(b)
        if len(self.buf) >= BUFSZ:
            self._drain()
        return len(data)

    def _drain(self):
        if self.buf:
            self.layer.disk[self.path] = self.layer.disk.get(self.path, b"") + self.buf
            self.buf = b""

    def flush(self):
        self.layer.tick(f"flush:{os.path.basename(self.path)}")
        if not self.layer.dead:
            self._drain()

    def close(self):
        if self.closed:
            return
        self.layer.tick(f"close:{os.path.basename(self.path)}")
        self.closed = True
        if not self.layer.dead:
            self._drain()
            self.layer.fds.pop(self.fd, None)

    def read(self, n=-1):
        data = self.layer.disk.get(self.path, b"")[self.pos:]
        self.pos += len(data)
        return data if self.binary else data.decode("utf-8")

    def readline(self):
        return self.read()

    def __iter__(self):
        return iter(self.read().splitlines(True))

    def seek(self, pos, whence=0):
        self.pos = pos
        return pos

    def tell(self):
        return self.pos

    def truncate(self, size=None):
        self.layer.tick(f"truncate:{os.path.basename(self.path)}")
        if not self.layer.dead:
            self.layer.disk[self.path] = self.layer.disk.get(self.path, b"")[: size or 0]


class _RealFile:
    """Proxy around a real file object: counts the same Python-level operations as the model."""

    def __init__(self, layer, f, vpath):
        self._l, self._f, self._v = layer, f, vpath
        self.name = vpath

    def __enter__(self):
        return self

    def __exit__(self, *exc):
        self.close()
        return False

    def write(self, data):
        self._l.tick(f"write:{os.path.basename(self._v)}")
        return self._f.write(data)

    def flush(self):
        self._l.tick(f"flush:{os.path.basename(self._v)}")
        return self._f.flush()

    def close(self):
        if self._f.closed:
            return
        self._l.tick(f"close:{os.path.basename(self._v)}")
        return self._f.close()

    def truncate(self, size=None):
        self._l.tick(f"truncate:{os.path.basename(self._v)}")
        return self._f.truncate(size)

    def __iter__(self):
        return iter(self._f)

    def __getattr__(self, name):
        return getattr(self._f, name)


class FSLayer:
    PATCHES = [("builtins", "open"), ("io", "open"), ("os", "open"), ("os", "fdopen"), ("os", "write"), ("os", "close"), ("os", "fsync"),
               ("os", "replace"), ("os", "rename"), ("os", "remove"), ("os", "unlink"), ("os", "stat"), ("os", "lstat"), ("os", "mkdir"),
               ("os", "makedirs"), ("os", "listdir"), ("os", "fdatasync"), ("os", "truncate"), ("os", "link"), ("os", "symlink"),
               ("tempfile", "mkstemp"), ("tempfile", "NamedTemporaryFile"), ("shutil", "move"), ("shutil", "copyfile"), ("shutil", "copy"),
               ("shutil", "copy2"), ("os", "readlink")]

    def __init__(self, backend, crash, mode="death", realroot=None):
        self.backend = backend          # 'model' | 'real'
        self.crash = crash              # callable(op index) -> bool
        self.mode = mode                # 'death' | 'interrupt'
        self.realroot = realroot
        self.disk = {}                  # model: path -> bytes
        self.links = {}                 # model: path of a symbolic link -> target path
        self.fds = {}                   # model: fd -> _VFile
        self.next_fd = 1000
        self.n_ops = 0
        self.ops = []
        self.dead = False
        self.crashed_at = None
        self.tmp_counter = 0
        self._saved = {}

    # ------------------------------------------------------------ crash points
    def tick(self, name):
        if self.dead:
            return
        i = self.n_ops
        self.n_ops += 1
        self.ops.append(name)
        if self.crashed_at is None and self.crash(i):
            self.crashed_at = i
            if self.mode == "death":
                if self.backend == "real":
                    os._exit(77)
                self.dead = True
                raise ProcessDied(f"died before op {i} ({name})")
            raise KeyboardInterrupt(f"interrupted before op {i} ({name})")

    # ------------------------------------------------------------ helpers
    def r(self, p):
        p = os.fspath(p)
        return self.realroot + p[len(VROOT):]

    def _res(self, p):
        """Follow symbolic links (model back end)."""
        p = os.fspath(p)
        for _ in range(16):
            if p not in self.links:
                return p
            t = self.links[p]
            p = t if os.path.isabs(t) else os.path.normpath(os.path.join(os.path.dirname(p), t))
        raise OSError(errno.ELOOP, os.strerror(errno.ELOOP), p)

    def _absent(self, p):
        return FileNotFoundError(errno.ENOENT, os.strerror(errno.ENOENT), os.fspath(p))

    def _isdir(self, p):
        p = os.fspath(p).rstrip("/")
        return p == VROOT or any(k.startswith(p + "/") for k in self.disk) or any(k.startswith(p + "/") for k in self.links) or p in self.dirs

    dirs = set()

    # ------------------------------------------------------------ install / uninstall
    def __enter__(self):
        import shutil
        mods = {"builtins": builtins, "io": io, "os": os, "tempfile": tempfile, "shutil": shutil}
        for m, n in self.PATCHES:
            mod = mods[m]
            orig = getattr(mod, n)
            self._saved[(m, n)] = orig
            setattr(mod, n, self._wrap(m, n, orig))
        self.dirs = {VROOT}
        return self

    def __exit__(self, *exc):
        import shutil
        mods = {"builtins": builtins, "io": io, "os": os, "tempfile": tempfile, "shutil": shutil}
        for (m, n), orig in self._saved.items():
            setattr(mods[m], n, orig)
        return False

    def _wrap(self, m, n, orig):
        handler = getattr(self, f"h_{m}_{n}" if m != "builtins" else "h_io_open", None)
        if handler is None:
            def unsupported(*a, **k):
                if any(_is_v(x) for x in a if isinstance(x, (str, bytes, os.PathLike))) or _is_v(k.get("dir", "")):
                    from symx.values import HarnessError
                    raise HarnessError(f"file-system model: {m}.{n} on a virtual path is not modelled")
                return orig(*a, **k)
            return unsupported

        def wrapped(*a, **k):
            return handler(orig, *a, **k)
        return wrapped

    # ------------------------------------------------------------ handlers
    def h_io_open(self, orig, file, mode="r", *a, **k):
        if isinstance(file, int):
            if file in self.fds:
                return self.h_os_fdopen(None, file, mode)
            return orig(file, mode, *a, **k)
        if not _is_v(file):
            return orig(file, mode, *a, **k)
        p = os.fspath(file)
        self.tick(f"open({mode}):{os.path.basename(p)}")
        if self.backend == "real":
            rf = orig(self.r(p), mode, *a, **k)
            self.realfds[rf.fileno()] = p
            return _RealFile(self, rf, p)
        if self.dead:
            return _VFile(self, p, mode, -1)
        p = self._res(p)                 # opening follows symbolic links: writing through a link truncates its TARGET
        if "r" in mode and "+" not in mode and p not in self.disk:
            raise self._absent(p)
        if "x" in mode and p in self.disk:
            raise FileExistsError(errno.EEXIST, os.strerror(errno.EEXIST), p)
        if "w" in mode or "x" in mode:
            self.disk[p] = b""                      # truncation happens at open
        elif "a" in mode:
            self.disk.setdefault(p, b"")
        fd = self.next_fd
        self.next_fd += 1
        f = _VFile(self, p, mode, fd)
        self.fds[fd] = f
        return f

    def h_os_open(self, orig, path, flags, mode=0o777, *a, **k):
        if not _is_v(path):
            return orig(path, flags, mode, *a, **k)
        p = os.fspath(path)
        self.tick(f"os.open:{os.path.basename(p)}")
        if self.backend == "real":
            return orig(self.r(p), flags, mode, *a, **k)
        if flags & os.O_EXCL and (p in self.disk or p in self.links):
            raise FileExistsError(errno.EEXIST, os.strerror(errno.EEXIST), p)
        p = self._res(p)
        if not (flags & os.O_CREAT) and p not in self.disk:
            raise self._absent(p)
        if flags & os.O_TRUNC or p not in self.disk:
            self.disk[p] = b""
        fd = self.next_fd
        self.next_fd += 1
        self.fds[fd] = _VFile(self, p, "wb" if flags & (os.O_WRONLY | os.O_RDWR) else "rb", fd)
        return fd

    def h_os_fdopen(self, orig, fd, mode="r", *a, **k):
        if self.backend == "real" or fd not in self.fds:
            f = orig(fd, mode, *a, **k)
            if self.backend == "real" and fd in self.realfds:
                return _RealFile(self, f, self.realfds[fd])
            return f
        f = self.fds[fd]
        f.mode = mode
        f.binary = "b" in mode
        return f

    realfds = {}

    def h_os_write(self, orig, fd, data):
        if self.backend == "real" or fd not in self.fds:
            if self.backend == "real" and fd in self.realfds:
                self.tick("os.write")
            return orig(fd, data)
        self.tick("os.write")
        if not self.dead:
            f = self.fds[fd]
            self.disk[f.path] = self.disk.get(f.path, b"") + bytes(data)
        return len(data)

    def h_os_close(self, orig, fd):
        if self.backend == "real" or fd not in self.fds:
            return orig(fd)
        self.tick("os.close")
        if not self.dead:
            self.fds.pop(fd, None)

    def h_os_fsync(self, orig, fd):
        if self.backend == "real" or fd not in self.fds:
            if self.backend == "real" and fd in self.realfds:
                self.tick("fsync")
            return orig(fd)
        self.tick("fsync")

    h_os_fdatasync = h_os_fsync

    def _two(self, orig, name, src, dst, *a, **k):
        if not (_is_v(src) or _is_v(dst)):
            return orig(src, dst, *a, **k)
        s, d = os.fspath(src), os.fspath(dst)
        self.tick(f"{name}:{os.path.basename(s)}->{os.path.basename(d)}")
        if self.backend == "real":
            return orig(self.r(s), self.r(d), *a, **k)
        if self.dead:
            return None
        if s in self.links:                      # the link itself is renamed
            self.disk.pop(d, None)
            self.links[d] = self.links.pop(s)
            return None
        if s not in self.disk:
            raise self._absent(s)
        self.links.pop(d, None)                  # a link at the destination is replaced, not followed
        self.disk[d] = self.disk.pop(s)          # atomic
        return None

    def h_os_replace(self, orig, src, dst, *a, **k):
        return self._two(orig, "replace", src, dst, *a, **k)

    def h_os_rename(self, orig, src, dst, *a, **k):
        return self._two(orig, "rename", src, dst, *a, **k)

    def h_shutil_move(self, orig, src, dst, *a, **k):
        return self._two(orig, "move", src, dst, *a, **k)

    def _copy(self, orig, name, src, dst, *a, **k):
        if not (_is_v(src) or _is_v(dst)):
            return orig(src, dst, *a, **k)
        s, d = os.fspath(src), os.fspath(dst)
        if self.backend == "real":
            # the same two steps shutil.copyfile performs (open the destination for writing = truncate, then copy the bytes), so that
            # the operation indices agree with the model and a death between the two steps can be reproduced on the real file system
            real_open = self._saved[("builtins", "open")]
            self.tick(f"{name}-open:{os.path.basename(d)}")
            with real_open(self.r(s), "rb") as fsrc:
                data = fsrc.read()
            fdst = real_open(self.r(d), "wb")
            try:
                self.tick(f"{name}-write:{os.path.basename(d)}")
                fdst.write(data)
            finally:
                fdst.close()
            return d
        # a copy is NOT atomic: truncate, then write in one or more chunks; both ends follow symbolic links
        self.tick(f"{name}-open:{os.path.basename(d)}")
        rs, rd = (self._res(s), self._res(d)) if not self.dead else (s, d)
        if not self.dead:
            if rs not in self.disk:
                raise self._absent(s)
            self.disk[rd] = b""
        self.tick(f"{name}-write:{os.path.basename(d)}")
        if not self.dead:
            self.disk[rd] = self.disk[rs]
        return d

    def h_shutil_copyfile(self, orig, src, dst, *a, **k):
        return self._copy(orig, "copyfile", src, dst, *a, **k)

    h_shutil_copy = h_shutil_copyfile
    h_shutil_copy2 = h_shutil_copyfile

    def _rm(self, orig, path, *a, **k):
        if not _is_v(path):
            return orig(path, *a, **k)
        p = os.fspath(path)
        self.tick(f"unlink:{os.path.basename(p)}")
        if self.backend == "real":
            return orig(self.r(p), *a, **k)
        if self.dead:
            return None
        if p in self.links:
            del self.links[p]                    # removes the link, never its target
            return None
        if p not in self.disk:
            raise self._absent(p)
        del self.disk[p]

    h_os_remove = _rm
    h_os_unlink = _rm

    def h_os_stat(self, orig, path, *a, **k):
        if isinstance(path, int) or not _is_v(path):
            return orig(path, *a, **k)
        p = os.fspath(path)
        if self.backend == "real":
            return orig(self.r(p), *a, **k)
        if k.get("follow_symlinks", True):
            p = self._res(p)
        elif p in self.links:
            return os.stat_result((_stat.S_IFLNK | 0o777, 1, 1, 1, 0, 0, len(self.links[p]), 0, 0, 0))
        if p in self.disk:
            return os.stat_result((_stat.S_IFREG | 0o644, 1, 1, 1, 0, 0, len(self.disk[p]), 0, 0, 0))
        if self._isdir(p):
            return os.stat_result((_stat.S_IFDIR | 0o755, 1, 1, 1, 0, 0, 0, 0, 0, 0))
        raise self._absent(p)

    def h_os_lstat(self, orig, path, *a, **k):
        if isinstance(path, int) or not _is_v(path) or self.backend == "real":
            return self.h_os_stat(orig, path, *a, **k)
        k = dict(k, follow_symlinks=False)
        return self.h_os_stat(orig, path, *a, **k)

    def h_os_symlink(self, orig, src, dst, *a, **k):
        if not _is_v(dst):
            return orig(src, dst, *a, **k)
        s, d = os.fspath(src), os.fspath(dst)
        self.tick(f"symlink:{os.path.basename(d)}")
        if self.backend == "real":
            return orig(self.r(s) if _is_v(s) else s, self.r(d), *a, **k)
        if self.dead:
            return None
        if d in self.disk or d in self.links:
            raise FileExistsError(errno.EEXIST, os.strerror(errno.EEXIST), d)
        self.links[d] = s

    def h_os_readlink(self, orig, path, *a, **k):
        if not _is_v(path):
            return orig(path, *a, **k)
        p = os.fspath(path)
        if self.backend == "real":
            t = orig(self.r(p), *a, **k)
            return VROOT + t[len(self.realroot):] if t.startswith(self.realroot) else t
        if p not in self.links:
            raise OSError(errno.EINVAL, os.strerror(errno.EINVAL), p)
        return self.links[p]

    def h_os_mkdir(self, orig, path, *a, **k):
        if not _is_v(path):
            return orig(path, *a, **k)
        p = os.fspath(path)
        if self.backend == "real":
            return orig(self.r(p), *a, **k)
        if self._isdir(p):
            raise FileExistsError(errno.EEXIST, os.strerror(errno.EEXIST), p)
        self.dirs.add(p.rstrip("/"))

    def h_os_makedirs(self, orig, path, *a, exist_ok=False, **k):
        if not _is_v(path):
            return orig(path, *a, exist_ok=exist_ok, **k)
        p = os.fspath(path)
        if self.backend == "real":
            return orig(self.r(p), *a, exist_ok=exist_ok, **k)
        self.dirs.add(p.rstrip("/"))

    def h_os_listdir(self, orig, path="."):
        if not _is_v(path):
            return orig(path)
        p = os.fspath(path).rstrip("/")
        if self.backend == "real":
            return orig(self.r(p))
        return sorted({k[len(p) + 1:].split("/")[0] for k in list(self.disk) + list(self.links) if k.startswith(p + "/")})

    def h_tempfile_mkstemp(self, orig, suffix=None, prefix=None, dir=None, text=False):
        if dir is None or not _is_v(dir):
            return orig(suffix, prefix, dir, text)
        d = os.fspath(dir)
        self.tmp_counter += 1
        name = f"{d}/{prefix or 'tmp'}{self.tmp_counter:04d}{suffix or ''}"
        self.tick(f"mkstemp:{os.path.basename(name)}")
        if self.backend == "real":
            fd = self._saved[("os", "open")](self.r(name), os.O_RDWR | os.O_CREAT | os.O_EXCL, 0o600)
            self.realfds[fd] = name
            return fd, name
        if not self.dead:
            self.disk[name] = b""
        fd = self.next_fd
        self.next_fd += 1
        self.fds[fd] = _VFile(self, name, "w+b", fd)
        return fd, name

    def h_tempfile_NamedTemporaryFile(self, orig, mode="w+b", buffering=-1, encoding=None, newline=None, suffix=None, prefix=None,
                                      dir=None, delete=True, **k):
        if dir is None or not _is_v(dir):
            return orig(mode, buffering, encoding, newline, suffix, prefix, dir, delete, **k)
        fd, name = self.h_tempfile_mkstemp(None, suffix, prefix, dir)
        f = self.h_os_fdopen(self._saved[("os", "fdopen")], fd, mode)
        f.name = name
        if delete:
            from symx.values import HarnessError
            raise HarnessError("file-system model: NamedTemporaryFile(delete=True) is not modelled")
        return f
