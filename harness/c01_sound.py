"""C01 — superadditive bounds contain the true game (both computers, any stale pre-state)."""
from __future__ import annotations

import random
from fractions import Fraction

from . import families as F
from . import histories as H

ID = "C01"
HEAVY = False
LOGIC = "QF_LRA"
COMPUTERS = ["superadditive", "superadditive_cached"]
BUDGET_S = {"quick": 200, "thorough": 3000}
TIMEOUT_MS = {"quick": 20000, "thorough": 300000}
ASSUMPTIONS = [
    "exact real arithmetic (float rounding not modelled)",
    "hidden game v superadditive by the textbook definition (harness-generated constraints, not is_superadditive)",
    "pre-state: K known with true values, every unknown row's lower/upper are free variables (stale state); "
    "closure of valid states under public operations is C17",
    "numpy semantics on object arrays as modelled in symx/arrays.py",
]
OUTSIDE = ["float rounding", "knowledge sets not listed for n>=5", "n>=8"]
STUBS = ["np proxy (float allocations -> object arrays)", "SymArray reductions max/min/sum/all/any"]
HISTORIES = ["stale", "reveal_unreveal", "bulk_reset"]      # + "ops<j>": seeded operation histories (harness/histories.py)


def bounds_text(tier):
    if tier == "quick":
        return "n=3 (8 K), n=4 (1024 K) x 2 computers, n=5 48+16 listed K, n=6 4 K (cached); free stale pre-state; history variants on seeded subsets"
    return ("n=3,4 all K x 2 computers; n=5 F5 family x 2 computers; n=6 200 K (cached) + 16 K (uncached); "
            "n=7 16 K (cached); history variants on seeded subsets")


def tasks(tier, seed):
    out = []

    def add(n, K, comp, hist="stale"):
        out.append({"key": f"n{n}/{comp}/{hist}/K={','.join(map(str, K))}", "n": n, "K": K, "computer": comp,
                    "history": hist})
    # canary-capable tasks first (unknown coalitions exist)
    for comp in COMPUTERS:
        add(3, [], comp)
    for n in (3, 4):
        fam, _ = F.family(n, tier, seed)
        for comp in COMPUTERS:
            for K in fam:
                if n == 3 and not K:
                    continue
                add(n, K, comp)
        for hist in HISTORIES[1:]:
            for K in F.sample([k for k in fam if len(k) < len(F.extras(n))], 8 if tier == "quick" else 64, seed, hist):
                for comp in COMPUTERS:
                    add(n, K, comp, hist)
        # seeded operation histories on one object (harness/histories.py): state kept outside the value table is only reachable this way
        nh = (3 if n == 3 else 1) if tier == "quick" else (6 if n == 3 else 2)
        pool = fam if n == 3 else F.sample([k for k in fam if len(k) < len(F.extras(n))], 40 if tier == "quick" else 200, seed, "ops")
        for K in pool:
            for j in range(nh):
                for comp in COMPUTERS:
                    add(n, K, comp, f"ops{j}")
    fam5h, _ = F.family(5, "quick", seed)
    for K in F.sample(fam5h, 6 if tier == "quick" else 40, seed, "ops5"):
        for comp in COMPUTERS:
            add(5, K, comp, "ops0")
    if tier == "thorough":
        fam5, _ = F.family(5, tier, seed)
        for comp in COMPUTERS:
            for K in fam5:
                add(5, K, comp)
        fam6, _ = F.family(6, tier, seed)
        for K in fam6:
            add(6, K, "superadditive_cached")
        for K in fam6[:16]:
            add(6, K, "superadditive")
        fam7, _ = F.family(7, tier, seed)
        for K in fam7:
            add(7, K, "superadditive_cached")
    else:
        fam5, _ = F.family(5, "quick", seed)
        for K in F.sample(fam5, 48, seed, "c01q5"):
            add(5, K, "superadditive_cached")
        for K in F.sample(fam5, 16, seed, "c01q5u"):
            add(5, K, "superadditive")
        fam6, _ = F.family(6, "quick", seed)
        for K in fam6[:4]:
            add(6, K, "superadditive_cached")
    return out


def _v(params, inp):
    n = params["n"]
    return [inp.const(0)] + [inp.real(f"v{S}") for S in range(1, 2 ** n)]


def setup(params, inp, lg):
    n = params["n"]
    v = _v(params, inp)
    known = set(F.minimal(n)) | set(params["K"])
    for S in range(2 ** n):
        if S not in known:
            inp.real(f"staleL{S}")
            inp.real(f"staleU{S}")
    if str(params.get("history", "")).startswith("ops"):
        for nm in H.stale_names(H.plan(n, params["K"], params["history"])):
            inp.real(nm)
    return F.sa_constraints(v, n, lg)


def build_game(pk, params, inp, v, computer=None, stale_prefix="stale"):
    """Reach knowledge set K through a public-operation history; unknown rows hold arbitrary values."""
    n = params["n"]
    C = pk.coalitions.Coalition
    comp = pk.bounds.BOUNDS[computer or params["computer"]]
    g = pk.game.IncompleteCooperativeGame(n, comp)
    known = sorted(set(F.minimal(n)) | set(params["K"]))
    unknown = [S for S in range(2 ** n) if S not in set(known)]
    hist = params.get("history", "stale")
    if hist.startswith("ops"):
        g = H.apply(pk, g, v, H.plan(n, params["K"], hist), inp)
    elif hist == "reveal_unreveal" and unknown:
        X = unknown[len(unknown) // 2]
        g.set_known_values([v[S] for S in known], [C(S) for S in known])
        g.reveal_value(v[X], C(X))
        g.compute_bounds()
        g.unreveal_value(C(X))
    elif hist == "bulk_reset":
        g.set_values(_arr(pk, v))
        g.compute_bounds()
        g.set_known_values([v[S] for S in known], [C(S) for S in known])
    elif hist == "direct_nostale":
        g.set_known_values([v[S] for S in known], [C(S) for S in known])
    else:
        g.set_known_values([v[S] for S in known], [C(S) for S in known])
        for S in unknown:
            g.set_lower_bound(inp.real(f"{stale_prefix}L{S}"), C(S))
            g.set_upper_bound(inp.real(f"{stale_prefix}U{S}"), C(S))
    return g, known, unknown


def _arr(pk, v):
    import numpy as np
    a = np.empty(len(v), dtype=object if pk.symbolic else float)
    for i, x in enumerate(v):
        a[i] = x
    return a


def read_game(pk, g, n):
    C = pk.coalitions.Coalition
    return {"L": [g.get_lower_bound(C(S)) for S in range(2 ** n)],
            "U": [g.get_upper_bound(C(S)) for S in range(2 ** n)],
            "known": [bool(g.is_value_known(C(S))) for S in range(2 ** n)]}


def scenario(pk, params, inp):
    v = _v(params, inp)
    g, known, unknown = build_game(pk, params, inp, v)
    g.compute_bounds()
    return read_game(pk, g, params["n"])


def claims(params, inp, out, lg):
    n = params["n"]
    v = _v(params, inp)
    known = set(F.minimal(n)) | set(params["K"])
    cl = []
    for S in range(2 ** n):
        L, U = out["L"][S], out["U"][S]
        if S in known:
            cl.append((f"known-exact:S={S}", lg.And(lg.eq(L, v[S]), lg.eq(U, v[S]), out["known"][S] is True)))
        else:
            cl.append((f"sound:S={S}", lg.And(lg.le(L, v[S]), lg.le(v[S], U))))
            cl.append((f"ordered:S={S}", lg.le(L, U)))
            cl.append((f"flag-unknown:S={S}", out["known"][S] is False))
    return cl


def canaries(params, inp, out, lg):
    n = params["n"]
    v = _v(params, inp)
    known = set(F.minimal(n)) | set(params["K"])
    unk = [S for S in range(2 ** n) if S not in known]
    if not unk:
        return []
    S = unk[0]
    # false on purpose: an unknown coalition's upper bound is in general strictly above its true value
    return [(f"canary-upper-below-true:S={S}", lg.le(out["U"][S], v[S]))]


def test_vectors(params):
    n = params["n"]
    rnd = random.Random(params["key"])
    vecs = []
    for g in F.sa_test_games(n, 1, 3):
        d = {f"v{S}": g[S] for S in range(1, 2 ** n)}
        for S in range(2 ** n):
            d[f"staleL{S}"] = Fraction(rnd.randint(-40, 40), 4)
            d[f"staleU{S}"] = Fraction(rnd.randint(-40, 40), 4)
        for k in range(12):
            d[f"hs{k}L"] = Fraction(rnd.randint(-40, 40), 4)
            d[f"hs{k}U"] = Fraction(rnd.randint(-40, 40), 4)
        vecs.append(d)
    return vecs
