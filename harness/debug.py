"""python -m harness.debug <ID> <tier> <key-substring> [max]: run matching tasks in-process, print details."""
import importlib, json, os, sys, time
from . import common, run as R
pid, tier, sub = sys.argv[1], sys.argv[2], sys.argv[3]
mx = int(sys.argv[4]) if len(sys.argv) > 4 else 3
modname = R.MODULES[pid]
mod = importlib.import_module(modname)
common._worker_init(bool(getattr(mod, "HEAVY", False)), os.environ.get("VERIF_REPO", "/repo"))
ts = [t for t in mod.tasks(tier, 0) if sub in t["key"]][:mx]
for t in ts:
    t0 = time.time()
    r = common.run_task_symbolic((modname, t, {"timeout_ms": 20000, "canary": True, "xcheck": False, "profile": False, "max_task_s": float(os.environ.get("DBG_TASK_S", "120"))}))
    print("==", t["key"], "wall %.2f" % (time.time() - t0))
    if r.get("harness_error"):
        print(r["harness_error"]); print(r["traceback"]); continue
    print({k: r[k] for k in ("obligations", "discharged", "unknown", "paths", "vacuous") if k in r}, r.get("stats"))
    print("  slow:", r.get("slow_obligations"))
    for v in r["violations"][:5]:
        print("  VIOL", v["name"], v["status"], v["info"], json.dumps(v["model"])[:300])
    for c in r["canary"][:3]:
        print("  CANARY", c["name"], c["status"])
