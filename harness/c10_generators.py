"""C10 — every offered game generator runs and yields a game of its assumed class."""
from __future__ import annotations

import random
from fractions import Fraction

from . import families as F
from .stubs import PyRandomStub, RngStub, patch_unbound_generator_defaults

ID = "C10"
HEAVY = False
NONLINEAR = "uf"
BUDGET_S = {"quick": 230, "thorough": 3300}
XCHECK_IGNORE = ("value_dtype", "single_value_type")
CONCRETE_ONLY = ("values-are-float64",)     # evaluated on the cross-check vectors in the unpatched package (no symbolic counterpart)
TIMEOUT_MS = {"quick": 20000, "thorough": 120000}
MAX_TASK_S = {"quick": 100, "thorough": 1500}
MAX_PATHS = 300000
ASSUMPTIONS = [
    "exact real arithmetic (float64 dtype of the result is seen only in the concrete cross-check)",
    "RNG stub: random()/uniform(lo,hi) return fresh reals in the OPEN interval (the measure-zero draw == lo makes xos divide 0/0), "
    "integers/choice/permutation return every outcome (forked), integers as numpy.int64 like the real Generator",
    "value_fn square / exp as uninterpreted functions with monotonicity, positivity, exp(0)=1 (enough for the factory families)",
    "graph_generator itself (the function behind the 31 graph-weight-distribution keys) is run on a symbolic non-negative weight matrix: "
    "superadditive, v(empty)=0, value = sum of strictly-upper weights, for ALL such matrices; per key only the support of its distribution is an assumption",
    "graph-weight-distribution and networkx families: decided at the matrix level (C15 lemma: any matrix with non-negative strictly-upper "
    "entries gives a superadditive game equal to its tabulation) + documented support of the numpy distributions / 0-1 adjacency; "
    "here they are only executed concretely for shape / exceptions / non-negativity of the drawn matrix",
    "the unbound C-method default np.random.Generator.random of additive() replaced in memory by the equivalent bound call",
]
OUTSIDE = ["float64 dtype beyond the cross-check vectors (it exists only in the float64 world: evaluated there on the concrete vectors of every task)", "n>=6 (n>=5 quick)", "'convex' (external dependency absent)", "networkx / scipy internals",
           "covg_fn_generator beyond the path budget (bug-hunting only there, reported as cut)", "xos*_norm_additive with >=3 parts when NRA answers unknown"]
STUBS = ["RNG stub", "np proxy", "SymArray", "generators.min/max symbolic", "math.exp wrapper (UF)"]

SAM_KEYS = {"xos", "xos_one", "xos2", "xos3", "xos12", "xos_norm_additive", "xos2_norm_additive", "xos3_norm_additive",
            "xos12_norm_additive", "xs", "oxs", "xs2", "xs3", "xs6", "k_budget_generator", "covg_fn_generator"}
IGNORES_RNG = {"predictible_factory", "xos_one"}
CONCRETE_ONLY_PREFIX = ("graph",)
# networkx families whose sampling code is pure Python and accepts a random.Random-typed stub: explored symbolically
NX_SYMBOLIC = {"graph_random", "graph_ws_connected"}
CONCRETE_EXCEPT = {"graph_cycle"} | NX_SYMBOLIC
SKIP = {"convex"}


def bounds_text(tier):
    if tier == "quick":
        return "every registry key except 'convex' at n=3 (and n=4 for the cheap families) incl. networkx graph_random / graph_ws_connected with a random.Random-typed stub; graph_generator on a symbolic non-negative matrix n=3,4; each run followed by an in-between call with another player count and an identically seeded re-run; path budgets on covg / xs6 / oxs"
    return "every registry key except 'convex' at n=3,4 (5 for cheap families); covg n=3 to a 300000-path budget"


def _registry():
    """Registry keys of the CURRENT source tree, read in a throw-away interpreter (the checking process must
    import the package only through the bootstrap)."""
    import json
    import os
    import subprocess
    import sys
    repo = os.environ.get("VERIF_REPO", "/repo")
    code = "import json,sys; sys.path.insert(0, %r); from incomplete_cooperative.generators import GENERATORS; print(json.dumps(list(GENERATORS)))" % repo
    p = subprocess.run([sys.executable, "-c", code], capture_output=True, text=True, timeout=300)
    if p.returncode != 0:
        raise RuntimeError("cannot read the generator registry: " + p.stderr[-800:])
    return json.loads(p.stdout.strip().splitlines()[-1])


def _is_concrete_only(key):
    return key.startswith(CONCRETE_ONLY_PREFIX) and key not in CONCRETE_EXCEPT


CHEAP = {"graph_random", "factory", "factory_one", "factory_fixed", "factory_square", "factory_exp", "noisy_factory", "noisy_factory_fixed",
         "noisy_factory_square", "noisy_factory_exp", "factory_cheerleader", "factory_cheerleader_next", "k_budget_generator",
         "xs", "xos2", "additive", "graph_cycle", "predictible_factory"}


def tasks(tier, seed):
    out = []
    keys = [k for k in _registry() if k not in SKIP]
    first = ["noisy_factory", "xos", "xs"]
    keys = first + [k for k in keys if k not in first]
    # the function behind all 31 graph-weight-distribution keys, run on a SYMBOLIC weight matrix (any distribution with support >= 0)
    for n in ((3, 4) if tier == "quick" else (3, 4, 5)):
        out.append({"key": f"graph_generator[symbolic dist_fn]/n{n}", "gen": "__graph_symbolic__", "n": n})
    for key in keys:
        ns = [3]
        if key in CHEAP or tier == "thorough":
            ns.append(4)
        if key in CHEAP and tier == "thorough":
            ns.append(5)
        if key in ("covg_fn_generator", "oxs", "xs6", "xos12", "xos12_norm_additive", "xos_norm_additive", "xos3_norm_additive") and tier == "quick":
            ns = [3]
        if key == "covg_fn_generator":
            ns = [3]
        for n in ns:
            out.append({"key": f"{key}/n{n}", "gen": key, "n": n, "canary": key in first and n == 3})
    return out


def setup(params, inp, lg):
    return []


def _tab(pk, g, n):
    C = pk.coalitions.Coalition
    return [g.get_value(C(S)) for S in range(2 ** n)]


def scenario(pk, params, inp):
    import numpy as np
    key, n = params["gen"], params["n"]
    patch_unbound_generator_defaults(pk)
    if key == "__graph_symbolic__":
        fam = [k for k, g in pk.generators.GENERATORS.items()
               if getattr(g, "func", g) is pk.generators.graph_generator]

        def dist(shape):
            rows, cols = shape
            a = np.empty(shape, dtype=object if pk.symbolic else float)
            for i in range(rows):
                for j in range(cols):
                    x = inp.real(f"m{i}_{j}")
                    inp.assume(x >= 0)
                    a[i, j] = x
            if pk.symbolic:
                from symx.arrays import SymArray
                a = a.view(SymArray)
            return a
        g = pk.generators.graph_generator(n, None, dist_fn=dist)
        return {"concrete": False, "players": int(g.number_of_players), "values": _tab(pk, g, n), "draws": 0, "all_known": True,
                "family_size": len(fam), "bulk": list(g.get_values())}
    gen = pk.generators.GENERATORS[key]
    if _is_concrete_only(key):
        # executed on the real RNG: shape / exceptions / sign of the drawn matrix only (class membership: C15 lemma)
        res = {"concrete": True, "values": [], "nonneg_upper": True, "players": []}
        for s in (1, 2, 3):
            g = gen(n, np.random.default_rng(s))
            m = np.asarray(g._graph_matrix, dtype=float)
            res["players"].append(int(g.number_of_players))
            res["nonneg_upper"] = res["nonneg_upper"] and bool((np.triu(m, 1) >= 0).all())
            vals = [float(x) for x in g.get_values()]
            res["values"].append(vals[0])
        return res
    Stub = PyRandomStub if key in NX_SYMBOLIC else RngStub
    rng1 = Stub(inp)
    g1 = gen(n, rng1)
    out = {"concrete": False, "players": int(g1.number_of_players), "values": _tab(pk, g1, n), "draws": rng1.k,
           "all_known": bool(np.all(g1.are_values_known())) if hasattr(g1, "are_values_known") else True,
           # the element type of the returned table exists only in the float64 world (object in the symbolic one)
           "value_dtype": str(np.asarray(g1.get_values()).dtype), "single_value_type": type(g1.get_value(pk.coalitions.Coalition(2 ** n - 1))).__name__}
    # what the caller does with a returned game must not leak into later calls: mutate it through the public in-place API
    if hasattr(g1, "set_value"):
        C_ = pk.coalitions.Coalition
        g1.set_value(inp.const(12345), C_(2 ** n - 1))
        g1.set_value(inp.const(-777), C_(1))
    if key not in IGNORES_RNG or key == "xos_one":
        # identical stream again: a generator consulting hidden state (module RNG, global counter) shows up here
        class _Replay:
            mode = inp.mode

            def __init__(self):
                self.choices = list(getattr(inp, "eng", None).choices) if inp.mode == "sym" else None
                self.i = 0

            def real(self, name):
                return inp.real(name)

            def assume(self, c):
                inp.assume(c)

            def choose(self, m, label="c"):
                if inp.mode == "sym":
                    k = self.choices[self.i]
                    self.i += 1
                    return k
                return inp.choose(m, label)
        # a call with a DIFFERENT player count in between (fixed, unquantified draws): per-size caches must not leak
        try:
            gen(n + 2, Stub(_FixedInp(inp.mode), prefix="mid"))
        except Exception as e:  # noqa: BLE001
            out["mid_exception"] = type(e).__name__
        # "identically seeded": the same bit-stream state AND the same SeedSequence object (a restored bit_generator.state, or a second
        # default_rng(ss) from one SeedSequence) - the strictest reading; state outside the bit stream (spawn counter) is not rewound
        kw = {"seed_seq": rng1.seed_seq} if Stub is RngStub else {}
        if inp.mode == "sym":
            rp = _Replay()
            g2 = gen(n, Stub(rp, **kw))
        else:
            saved = inp._ci
            inp._ci = 0
            g2 = gen(n, Stub(inp, **kw))
            inp._ci = max(saved, inp._ci)
        out["values2"] = _tab(pk, g2, n)
    return out


class _FixedInp:
    """Unquantified environment for the in-between call: draws 1/2, 1/4, 3/4, ... and discrete outcomes 0,1,2,... round-robin."""

    def __init__(self, mode):
        self.mode = mode
        self.c = 0
        self.d = 0

    def real(self, name):
        self.d += 1
        f = Fraction(2 * (self.d % 31) + 1, 64)
        if self.mode == "sym":
            from symx.values import SymReal
            return SymReal(f)
        import numpy as np
        return np.float64(float(f))

    def assume(self, c):
        pass

    def choose(self, m, label="c"):
        self.c += 1
        return (self.c - 1) % m


def claims(params, inp, out, lg):
    key, n = params["gen"], params["n"]
    zero = lg.const(0)
    if out["concrete"]:
        return [("requested-number-of-players", all(p == n for p in out["players"])),
                ("empty-coalition-zero", all(v == 0 for v in out["values"])),
                ("drawn-matrix-nonnegative-above-diagonal", out["nonneg_upper"] is True)]
    v = out["values"]
    cl = [("requested-number-of-players", out["players"] == n), ("complete-game", out["all_known"] is True),
          ("empty-coalition-zero", lg.eq(v[0], zero))]
    for A, B in F.disjoint_pairs(n):
        cl.append((f"superadditive:{A}|{B}", lg.le(v[A] + v[B], v[A | B])))
    if key in SAM_KEYS:
        for T in range(1, 2 ** n):
            for i in range(n):
                if T >> i & 1:
                    cl.append((f"monotone-non-increasing:{T & ~(1 << i)}>={T}", lg.ge(v[T & ~(1 << i)], v[T])))
    if key == "__graph_symbolic__":
        cl.append(("graph-family-shares-this-function", out["family_size"] >= 30))
        cl.append(("bulk-values-agree", lg.And([lg.eq(a, b) for a, b in zip(v, out["bulk"])])))
        for S in range(2 ** n):
            ref = zero
            for i in range(n):
                for j in range(i + 1, n):
                    if S >> i & 1 and S >> j & 1:
                        ref = ref + inp.real(f"m{i}_{j}")
            cl.append((f"value-is-sum-of-upper-triangle-weights:S={S}", lg.eq(v[S], ref)))
        return cl
    cl.append(("in-between-call-runs", "mid_exception" not in out))
    if lg.mode == "conc":
        cl.append(("values-are-float64", out.get("value_dtype") == "float64" and out.get("single_value_type") in ("float64", "float")))
    if "values2" in out:
        cl.append(("identically-seeded-calls-agree", lg.And([lg.eq(a, b) for a, b in zip(v, out["values2"])])))
    return cl


def canaries(params, inp, out, lg):
    if out["concrete"]:
        return []
    n = params["n"]
    # false on purpose: the game would have to be additive on the first disjoint pair of non-singletons' union
    return [("canary-strictly-additive", lg.eq(out["values"][1] + out["values"][2 ** n - 2], out["values"][2 ** n - 1] + 1))]


def signature(params, v):
    fam = v["name"].split(":")[0]
    info = v.get("info") or {}
    if v["status"] == "exception":
        fam = "exception/" + str(info.get("type"))
    return f"C10/{params['gen']}/{fam}"


def test_vectors(params):
    rnd = random.Random(params["key"])
    vecs = []
    if params["gen"] == "__graph_symbolic__":
        n = params["n"]
        return [{f"m{i}_{j}": Fraction(rnd.randint(0, 32), 8) for i in range(n) for j in range(n)} for _ in range(2)]
    for _ in range(2):
        vecs.append({f"r{k}": Fraction(rnd.randint(1, 63), 64) for k in range(1, 200)})
    return vecs
