"""Seeded public-operation histories on ONE incomplete-game object that end in a prescribed knowledge set.

The bound properties (C01-C04, C07, C08) speak about "any sequence of reveal, un-reveal, bulk reset and recompute operations".  The free
stale variables of the basic harness cover every state such a history can leave in the value TABLE; what they cannot cover is state a
change keeps OUTSIDE the table (memo attributes on the game object, flags, cached index plans, views held from an earlier call).  Such
state is only reachable by actually running a history, so these plans do: a concrete skeleton of public operations (which operation, on
which coalitions) drawn from a seed, executed with the symbolic hidden values - the verdict for each skeleton is still the solver's, for
all games.  The skeleton list is part of the stated bound.
"""
from __future__ import annotations

import random

from . import families as F


def plan(n, k_final, seed, length=6):
    """Concrete operation skeleton ending with exactly minimal ∪ k_final known (no recompute at the very end: the caller does that)."""
    rnd = random.Random(f"hist/{n}/{sorted(k_final)}/{seed}")
    minimal = set(F.minimal(n))
    extras = list(F.extras(n))
    target = minimal | set(k_final)
    known = set(minimal)
    ops = [("reinit", sorted(known))]
    stale_k = 0
    weights = [("reveal", 5), ("unreveal", 4), ("bulk_set", 3), ("reinit", 2), ("compute", 6), ("read", 3), ("copy", 1), ("stale", 2),
               ("bulk_all", 1), ("set_unset", 1)]
    names = [w[0] for w in weights]
    wts = [w[1] for w in weights]
    for _ in range(length):
        kind = rnd.choices(names, wts)[0]
        unknown = [S for S in extras if S not in known]
        kn_ex = [S for S in extras if S in known]
        if kind == "reveal" and unknown:
            S = rnd.choice(unknown)
            ops.append(("reveal", S))
            known.add(S)
        elif kind == "unreveal" and kn_ex:
            S = rnd.choice(kn_ex)
            ops.append(("unreveal", S))
            known.discard(S)
        elif kind == "bulk_set" and extras:
            sel = rnd.sample(extras, min(len(extras), rnd.randint(1, 3)))
            if rnd.random() < 0.5:
                sel = sorted(sel, reverse=True)
            ops.append(("bulk_set", sel))
            known |= set(sel)
        elif kind == "bulk_all":
            ops.append(("bulk_all",))
            known = set(range(2 ** n))
        elif kind == "reinit":
            sub = [S for S in extras if rnd.random() < 0.4]
            ops.append(("reinit", sorted(minimal | set(sub))))
            known = minimal | set(sub)
        elif kind == "compute":
            ops.append(("compute",))
        elif kind == "read":
            ops.append(("read",))
        elif kind == "copy":
            ops.append(("copy",))
        elif kind == "stale" and unknown:
            S = rnd.choice(unknown)
            ops.append(("stale", S, stale_k))
            stale_k += 1
        elif kind == "set_unset" and unknown:
            S = rnd.choice(unknown)
            ops.append(("set", S))
            ops.append(("unset", S))
    # make sure at least one recompute happened before the final change of knowledge (that is where cached state is born)
    if not any(o[0] == "compute" for o in ops):
        ops.append(("compute",))
    # ---- final fix-up to the target knowledge
    mode = rnd.choice(["single", "single", "reinit", "bulk", "same-size-swap"])
    if not known >= minimal:
        mode = "reinit"
    if mode == "reinit":
        if rnd.random() < 0.5 and known != target:
            ops.append(("compute",))
        ops.append(("reinit", sorted(target)))
    else:
        remove = [S for S in known if S not in target]
        add = [S for S in target if S not in known]
        rnd.shuffle(remove)
        rnd.shuffle(add)
        if mode == "same-size-swap" and target - minimal:
            # compute at a knowledge set of the SAME size as the target but different membership, then swap without recomputing
            for S in remove:
                ops.append(("unreveal", S))
            for S in add:
                ops.append(("reveal", S))
            inside = [S for S in target if S not in minimal]
            outside = [S for S in extras if S not in target]
            if inside and outside:
                X, Y = rnd.choice(inside), rnd.choice(outside)
                ops += [("unreveal", X), ("reveal", Y), ("compute",), ("unreveal", Y), ("reveal", X)]
        elif mode == "bulk":
            for S in remove:
                ops.append(("unreveal", S))
            if add:
                ops.append(("bulk_set", add))
        else:
            for S in remove:
                ops.append(("unreveal", S))
            for S in add:
                ops.append(("reveal", S))
    return ops


def stale_names(ops, prefix="hs"):
    out = []
    for o in ops:
        if o[0] == "stale":
            out += [f"{prefix}{o[2]}L", f"{prefix}{o[2]}U"]
    return out


def apply(pk, g, v, ops, inp, prefix="hs"):
    """Run the skeleton on game object g with the hidden values v (terms or floats); returns the object to continue with."""
    import numpy as np
    C = pk.coalitions.Coalition
    held = []           # references returned by reads are kept alive on purpose (aliasing)

    def arr(xs):
        a = np.empty(len(xs), dtype=object if pk.symbolic else float)
        for i, x in enumerate(xs):
            a[i] = x
        return a
    for o in ops:
        k = o[0]
        if k == "reveal":
            g.reveal_value(v[o[1]], C(o[1]))
        elif k == "unreveal":
            g.unreveal_value(C(o[1]))
        elif k == "set":
            g.set_value(v[o[1]], C(o[1]))
        elif k == "unset":
            g.unset_value(C(o[1]))
        elif k == "bulk_set":
            g.set_values(arr([v[S] for S in o[1]]), [C(S) for S in o[1]])
        elif k == "bulk_all":
            g.set_values(arr(list(v)))
        elif k == "reinit":
            g.set_known_values(arr([v[S] for S in o[1]]), [C(S) for S in o[1]])
        elif k == "compute":
            g.compute_bounds()
        elif k == "read":
            held.append((g.are_values_known(), g.get_known_values(), g.get_lower_bounds(), g.get_upper_bounds()))
        elif k == "copy":
            g = g.copy()
        elif k == "stale":
            g.set_lower_bound(inp.real(f"{prefix}{o[2]}L"), C(o[1]))
            g.set_upper_bound(inp.real(f"{prefix}{o[2]}U"), C(o[1]))
        else:
            raise ValueError(k)
    return g


def describe(ops):
    return " ; ".join(o[0] + ("" if len(o) == 1 else "(" + ",".join(str(x) for x in o[1:]) + ")") for o in ops)
