#!/bin/sh
# tools/with_mutant.sh <patch-file> <command...> : run a command with VERIF_REPO pointing at a scratch
# (BASE_REV=<commit> takes the files of that commit instead of the working tree)
# copy of /repo (outside /repo and /verif) to which the patch has been applied; the copy is removed afterwards.
set -eu
PATCH=$(realpath "$1"); shift
D=$(mktemp -d /tmp/mutrepo.XXXXXX)
trap 'rm -rf "$D"' EXIT
mkdir -p "$D/repo"
if [ -n "${BASE_REV:-}" ]; then
  ( cd /repo && git archive "$BASE_REV" incomplete_cooperative setup.py setup.cfg | tar -x -C "$D/repo" )
else
  ( cd /repo && git ls-files -z incomplete_cooperative setup.py setup.cfg | xargs -0 cp --parents -t "$D/repo" )
fi
( cd "$D/repo" && patch -p1 -s < "$PATCH" )
VERIF_REPO="$D/repo" "$@"
