#!/bin/sh
# tools/confirm_kept.sh <seed ids...> : re-confirm kept seeded changes from their committed patch in a throw-away worktree
# (demo fails with the change, passes without it, baseline-stable tests pass with it); writes seeded/<id>/confirm.log
cd "$(dirname "$0")/.."
for id in "$@"; do
  d=$(realpath seeded/$id)
  wt=$(mktemp -d /tmp/confirm_wt.XXXXXX); rmdir $wt
  base=HEAD; patch=$d/patch.diff
  if [ -f $d/full.diff ]; then base=a90f285; patch=$d/full.diff; fi
  git -C /repo worktree add --detach -q $wt $base || continue
  ( cd $wt && git apply $patch ) || { echo "$id: patch does not apply"; git -C /repo worktree remove --force $wt; continue; }
  cp $patch /tmp/confirm_patch_$id.diff
  # confirm_seed.sh compares the worktree diff with <demo-dir>/patch.diff
  ./tools/confirm_seed.sh $wt $d | sed "s/^/$id: /"
  rm -f $d/patch.confirm.diff /tmp/confirm_patch_$id.diff
  git -C /repo worktree remove --force $wt
done
