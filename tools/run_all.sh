#!/bin/sh
# tools/run_all.sh <quick|thorough> [ids...] : run the registered checks one after the other, print a summary table
cd "$(dirname "$0")/.."
TIER=${1:-quick}; shift
IDS=${*:-$(python3 -c "import json; print(' '.join(c['property_id'] for c in json.load(open('MANIFEST.json'))['checks']))")}
for id in $IDS; do
  s=$(date +%s)
  ./check $id $TIER > /tmp/runall_$id.log 2>&1; rc=$?
  e=$(date +%s)
  echo "$id exit=$rc wall=$((e-s))s $(grep -c '^VIOLATION' /tmp/runall_$id.log) violations $(grep -c '^KNOWN-FINDING' /tmp/runall_$id.log) known"
done
