#!/bin/sh
# tools/intake_seed.sh <ID> <suffix> [src-root] [wt-root] : take in a seeded change delivered by a sub-agent:
#   confirm it (demo with/without, stable tests), run the property's quick check against it, copy it to seeded/<ID><suffix>/
cd "$(dirname "$0")/.."
ID=$1; SUF=$2; SRC=${3:-/tmp/seed4}/$ID; WT=${4:-/tmp/wt4}/$ID
[ -f $SRC/patch.diff ] || { echo "no patch in $SRC"; exit 2; }
DST=seeded/$ID$SUF
mkdir -p $DST
cp $SRC/patch.diff $SRC/demo.py $DST/ ; cp $SRC/notes.md $DST/ 2>/dev/null
./tools/confirm_seed.sh $WT $(realpath $DST) > /tmp/intake_$ID.confirm 2>&1
rm -f $DST/patch.confirm.diff
tail -6 /tmp/intake_$ID.confirm
./tools/with_mutant.sh $DST/patch.diff ./check $ID quick > /tmp/intake_$ID.check 2>&1; rc=$?
echo "check exit=$rc"; grep -E "^VIOLATION|violated claim|INCONCLUSIVE|MISMATCH|HARNESS ERROR|boundary" /tmp/intake_$ID.check | cut -c1-260 | head -12
