#!/bin/sh
# tools/dbg.sh <ID> <tier> <key-substring> [max] : run matching tasks of one check in-process with details (development aid)
cd "$(dirname "$0")/.."
export PYTHONPATH="$PWD:$PWD/.deps" PYTHONDONTWRITEBYTECODE=1 OMP_NUM_THREADS=1 OPENBLAS_NUM_THREADS=1 MKL_NUM_THREADS=1
exec /venv/bin/python -m harness.debug "$@"
