#!/usr/bin/env python3
"""tools/assemble_matrix.py <log> [<log> ...] : merge the lines of several tools/seed_matrix.sh runs (later logs win) into seeded/MATRIX.txt."""
import os
import re
import sys

VERIF = os.path.dirname(os.path.dirname(os.path.abspath(__file__)))
rows = {}
for path in sys.argv[1:]:
    for line in open(path, errors="replace"):
        m = re.match(r"^(C\d\d[a-z]?) -> (C\d\d) exit=(\d+) (.*)$", line.strip())
        if m:
            rows[m.group(1)] = (line.strip(), os.path.basename(path))
seeds = sorted(d for d in os.listdir(os.path.join(VERIF, "seeded")) if os.path.isdir(os.path.join(VERIF, "seeded", d)))
out = ["# one line per kept seeded change: the quick check of its property run against a scratch copy of /repo with the change applied",
       "# (tools/seed_matrix.sh; exit=1 = caught with a reproducing replay).  Assembled from: " + ", ".join(os.path.basename(p) for p in sys.argv[1:])]
missing = []
for s in seeds:
    if s in rows:
        out.append(rows[s][0])
    else:
        missing.append(s)
        out.append(f"{s} -> (not re-run in the listed logs)")
open(os.path.join(VERIF, "seeded", "MATRIX.txt"), "w").write("\n".join(out) + "\n")
caught = sum(1 for s in seeds if s in rows and " exit=1 " in rows[s][0])
print(f"{len(seeds)} seeds, {caught} caught (exit=1), {len(seeds) - caught - len(missing)} not caught, {len(missing)} not re-run: {missing}")
