#!/venv/bin/python
"""Known finding C12/partB/pool-chunk-rng-replay demonstrated with a REAL multiprocessing.Pool (no stub).

evaluate() with processes>1: every pool chunk is pickled with a copy of the same ModelInstance / RNG state, so repetitions
that land in different chunks replay the same hidden game.  Exit 1 = finding reproduces (as expected on the pinned tree),
exit 0 = repetitions are independent for every worker count tried.
"""
import os
import sys
sys.path.insert(0, os.environ.get("VERIF_REPO", "/repo"))
import numpy as np  # noqa: E402
from incomplete_cooperative.evaluation import evaluate  # noqa: E402
from incomplete_cooperative.run.model import ModelInstance  # noqa: E402
from incomplete_cooperative.solvers import SOLVERS  # noqa: E402

bad = False
for P in (1, 2, 3):
    inst = ModelInstance(number_of_players=3, game_class="superadditive", game_generator="noisy_factory", seed=7,
                         run_steps_limit=2, parallel_environments=P)
    solver = SOLVERS["largest"](inst)
    gaps, actions = evaluate(solver.next_step, inst.get_env, 8, 2, inst.gap_function_callable, P, solver.after_reset)
    distinct = len({round(float(x), 12) for x in gaps[0]})
    print(f"processes={P}: initial gaps of the 8 repetitions: {np.round(gaps[0], 4)}  -> {distinct} distinct")
    if distinct < 8:
        bad = True
print("FINDING REPRODUCES: repetitions replay one another under a pool" if bad else "repetitions independent for every worker count")
sys.exit(1 if bad else 0)
