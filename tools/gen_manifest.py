#!/usr/bin/env python3
"""Regenerate /verif/MANIFEST.json from the table below (single source of truth)."""
import json
import os

VERIF = os.path.dirname(os.path.dirname(os.path.abspath(__file__)))

TECH = "bounded symbolic execution of the real Python source over z3 terms (QF_LRA/NRA/UF), per-skeleton SMT verdict over all real values, counterexample replay on the unpatched float64 code"

CLAIMED = {
    # id: (design_ref, text, note, technique override or None)
    "C01": ("§C01", "For every listed knowledge set K (all K for n<=4) and both superadditive computers, z3 shows that no superadditive "
            "game and no stale pre-state makes a computed interval miss the true value, invert, or alter a known row. Bounded by n and the K list; "
            "exact reals. Plus seeded operation histories on ONE object (reveal / un-reveal / bulk setters / re-initialisation / recompute / copy / reads, harness/histories.py) "
            "ending in the listed K - state a change keeps outside the value table is only reachable that way.",
            "Trusts: z3, the symx numpy-object-array carrier (validated each run by concrete cross-checks against the unpatched package), C17 for closure of valid states."),
    "C02": ("§C02", "Per listed K and both computers z3 shows, for all superadditive games, that every computed bound equals the definition-level closed form "
            "(best partition into known blocks; min over known supersets) and that explicit superadditive completions built from the outputs attain each bound "
            "(lower-bound game; per-coalition upper witness). Bounded by n<=5 and the K list; closed form also after seeded operation histories on one object.",
            "Trusts: z3, symx carrier (cross-checked per run), harness-side reference terms written from the property text."),
    "C03": ("§C03", "For all real inputs (no class assumption) and independent stale states z3 shows the two computers' result terms equal, per listed K, "
            "n=2..8, along call sequences mixing player counts / game objects that start from a pristine interpreter state (forked per task), and after seeded operation histories run on one object per computer.",
            "Trusts: z3, symx carrier; equality over the reals (bit-identity follows when sums are exact). Float-rounding equality on inexact inputs is outside."),
    "C08": ("§C08", "Per computer and listed K, z3 shows results are independent of two arbitrary stale pre-states, idempotent, equal along different reveal orders "
            "with a reveal/un-reveal detour, that a seeded operation history on one object gives the bounds of a fresh object with the same knowledge, and that ICG_Gym.step followed by unstep restores table, state, reward, mask, steps and done term-for-term.",
            "Trusts: z3, symx carrier, generator stub; sam_apx_100/1000 only under SAM(v) at n=3."),
    "C04": ("§C04", "Direct runs (n=3 all K, r up to 1000; n=4 r<=2; n=5 r=0) decide every clause for all SAM games; an inductive step for the repetition loop "
            "(loop-schedule stub: one more repetition from ANY state with SA-lower<=L<=v) shows the invariant, never-loosening, lower monotonicity and every "
            "upper-bound clause are preserved - covering all repetition counts for the listed K at n<=5; direct runs also after seeded operation histories on one object.",
            "Trusts: z3, symx carrier, the loop-schedule stub of module-global range in bounds.py (checked to be consumed exactly once), symbolic min/max."),
    "C05": ("§C05", "For each n<=6 (8 thorough) one symbolic run of compute_exploitability / MaxGainGame / Shapley on arbitrary real bound vectors; z3 proves the binomial "
            "identity, the summed-max-gain identity, non-negativity, zero iff degenerate, and Shapley domination for every completion in the box.",
            "Trusts: z3, symx carrier."),
    "C06": ("§C06", "For each n<=6 (7 thorough) the real Shapley code on a fully symbolic game equals the explicit average over all n! orderings; efficiency, additivity "
            "(real __add__), homogeneity, null player, entry-point agreement to n=8 (10), relabelling for all permutations n<=4 (5).",
            "Trusts: z3, symx carrier, harness-side enumeration of orderings with exact fractions."),
    "C07": ("§C07", "Interval monotonicity proved per lattice edge (all edges n=3, 640/5120 at n=4, listed edges n=5) for SA, SA-cached, sam_apx_1 via the real reveal history; "
            "the four real gap callables proved non-increasing / non-negative / zero-when-degenerate / equal to their definitions on abstract nested boxes "
            "(compositional), plus end-to-end on the whole n=3 lattice.",
            "Trusts: z3, symx carrier, np.linalg.norm model, SQ/SQRT as uninterpreted functions with instantiated monotonicity axioms."),
    "C09": ("§C09", "From every listed reachable state (all at n=3) with free stale bounds, one real ICG_Gym.step on a symbolic hidden game of the assumed class: z3 decides "
            "knowledge = minimal ∪ chosen with hidden values, mask, normalised observation, reward = -gap of a fresh game, reward<=0, info, done (budget None / symbolic), "
            "reset semantics incl. done right after reset (zero budget / degenerate hidden game), a second episode; environments built directly and through ModelInstance.get_env(); n=7 runs in the thorough tier.",
            "Trusts: z3, symx carrier, generator stub indexed by draw counter, norm model / UF for l2."),
    "C15": ("§C15", "Real normalize_game / denormalize_game on a symbolic superadditive value table and on a graph game with symbolic weights, both paths (surplus zero / non-zero): "
            "singletons 0, values in [0,1], grand 1 or all 0, superadditivity kept, graph == tabulated, round trip, every stage read through every accessor, a second cycle; exact reals, n<=5 (6 thorough); "
            "one float64 kernel (additive n=3) in QF_FP decided by cvc5.",
            "Trusts: z3, cvc5 (FP kernel), symx carrier (fraction representation keeps the queries linear). KNOWN FINDING C15/fp64/additive-residue is reported as KNOWN-FINDING; every other obligation stays armed."),
    "C16": ("§C16", "Real ICG_Gym_Linear over a real ICG_Gym on a symbolic hidden game: for every listed knowledge set and every size, with np.random.choice explored over every "
            "candidate, z3 / term identity decide mask, single new known coalition of that size, info, reward/done pass-through and per-size observation sums.",
            "Trusts: z3, symx carrier, np.bincount model, exhaustive-choice stub for np.random.choice."),
    "C17": ("§C17", "One public operation from every enumerated flag pattern (all for n<=3 quick: 128+16, thorough 256) with all stored numbers and operands free: post-table equals "
            "a reference map; getters never leak unknown values; copy independence; negation involution; addition. Mostly term identity, solver for the rest.",
            "Trusts: symx carrier, harness reference map written from the property text."),
    "C18": ("§C18", "Loop-free coalition operators decided for ALL id pairs below 2^16 at once (bit-vector queries); looping operations and the id-array implementations explored "
            "with one solver-pruned path per coalition for n<=6 (8) against set-theoretic references; predicates on symbolic games: returned verdict <=> textbook formula with the documented tolerance.",
            "Trusts: z3 (QF_BV, LRA), symx carrier, np.isclose model."),
    "C10": ("§C10", "Every registry key except 'convex' executed at n=3 (4, 5 for cheap families) against an RNG stub whose continuous draws are free reals in the open interval "
            "and whose discrete draws are explored exhaustively: z3 decides no-exception, player count, v(empty)=0, superadditivity (and monotonicity for the SAM families) for all draws; "
            "identical streams give identical games also across an in-between call with another player count. Graph-weight / networkx families only at the matrix level (see note).",
            "Trusts: z3, symx carrier, RNG stub contract, UF axioms for square/exp. Graph distribution families rely on the C15 matrix lemma + documented non-negative support (executed concretely only). "
            "covg / xs6 / oxs are path-budgeted; *_norm_additive with >=3 parts may be reported inconclusive (NRA)."),
    "C11": ("§C11", "Real sample_exploitabilities_of_action_sequences / MetaGame / get_best_exploitability on symbolic superadditive games with a Pool stub: the enumerated sets are exactly all <=k subsets once, "
            "every reported gap is z3-equal to the gap of a fresh game knowing start ∪ set, for P in {1,2,3,5,16}; best-states minimum and attaining set along every ordering of the running minimum (forked), starting knowledge given at construction or reached by stepping the environment.",
            "Trusts: z3, symx carrier, Pool stub (CPython chunking, per-chunk deep copy). Real OS processes are outside."),
    "C12": ("§C12", "Real evaluate/eval_one/ModelInstance/solvers on draw-indexed symbolic games: Part A (P=1) every recorded row equals the gap of a fresh game along the recorded actions of the "
            "repetition's own draw (n=3, 4 and one n=7 run: 119 explorable coalitions); Part B: independence of repetitions and equality across worker counts under the Pool stub, plus 'every column is a true trajectory of some draw'.",
            "Trusts: z3, symx carrier, Pool stub, draw-counter RNG. KNOWN FINDING C12/partB/pool-chunk-rng-replay (see known_findings.txt) is reported as KNOWN-FINDING; every other obligation stays armed."),
    "C13": ("§C13", "At every listed reachable state the real solvers' choice is decided against reference one-step rewards from fresh games: greedy / worst-greedy extremal with lowest-index ties "
            "(forks over the comparisons), largest, random for every outcome; environment term-identical before/after; expected-greedy extension minimality, no repeats, monotone curve, optimum for one reveal (n=3; n=4 with three reveals for l1 / l-infinity, guided by concrete valuations first; "
            "the l2 ranking is undecidable for z3 under the SQ/SQRT abstraction - that task is reported inconclusive and its concrete test games are executed instead, flagged).",
            "Trusts: z3, symx carrier, choice stub, np.argmin model, Pool stub."),
    "C20": ("§C20", "Real save_json executed on an in-memory file-system model with a SYMBOLIC crash index: the engine forks at every file-system operation (process death and KeyboardInterrupt "
            "semantics), payloads up to > one 8 KiB buffer, histories 0..3; at every crash point the results file is byte-equal to the old or the complete new file, parses, keeps earlier runs; also with the results file being a symbolic link into another directory. "
            "The model is validated each run against the real file system (forked child dying at the same operation).",
            "Trusts: FS model semantics (validated against the real FS each run); the solver's role is confined to the crash variable; power-loss durability outside."),
    "C14": ("§C14", "Constructor + ranking tables executed and checked for the listed (players, limit) grid incl. n=5 (reachability of the set-up; exceptions are violations); "
            "iterations: from every state reached by <=2 concrete loss vectors of a listed set, ONE real regret_min_iteration with free non-negative terminal losses: z3 decides for all loss vectors "
            "that current / played / average strategies are distributions avoiding revealed coalitions, added regret is orthogonal to the played strategy (plain), plus keeps regret >= 0; "
            "save/load: saved, loaded, both continued by a concrete and a free-loss iteration: all tables z3-equal, files describe the moment of the save, a second save replaces the first.",
            "Trusts: z3, symx carrier, array-store stub for np.save / np.load (round-trip contract incl. mmap modes; params.json is real). Bounded: no unbounded induction over iterations (fully symbolic pre-state is nonlinear and did not finish); float32 storage and the .npy byte format outside."),
}

CLAIMED["C19"] = ("§C19 (as built: §10.9)", "Real save / save_json / Output.from_file / get_outputs_from_file (and the solve, greedy and best-states entry points feeding them) run on a real "
                  "scratch directory with every finite matrix entry a free z3 real carried through the REAL json encoder/decoder as a placeholder leaf: z3 decides that each entry read back "
                  "equals the entry saved (NaN padding, shapes incl. 3-d action arrays), metadata equals its JSON stringification, and - forking over WHICH name each save of a history uses - "
                  "that a new name leaves earlier entries unchanged, an existing name leaves the file byte-identical, and the final file is the first-save-wins union.",
                  "Trusts: z3, symx carrier, and the JSON number-literal contract (a finite double printed by json is parsed back to the same double; NaN <-> NaN) - byte-level float printing itself "
                  "is NOT decided (no SMT theory for shortest round-trip printing). The solver's part is small (term equality, name-choice forks); rounding / casting mutations surface at the "
                  "engine's discretisation boundary and are then demonstrated on concrete test vectors (bit-exact comparison).",
                  None)

NOT_YET = {}

NA = {}


def main():
    props = [json.loads(l) for l in open(os.path.join(VERIF, "properties.jsonl"))]
    checks, na = [], []
    for p in props:
        pid = p["id"]
        if pid in CLAIMED:
            ref, text, note, tech = (CLAIMED[pid] + (None,))[:4]
            checks.append({
                "property_id": pid,
                "quick_cmd": f"./check {pid} quick",
                "thorough_cmd": f"./check {pid} thorough",
                "evidence_file": f"/verif/evidence/{pid}.json",
                "replay_cmd_template": "./check --replay {path}",
                "engine": "symx",
                "level_claimed": {"category": "model_checking", "text": text, "design_ref": ref},
                "level_note": note,
                "technique": tech or TECH,
            })
        elif pid in NA:
            na.append({"property_id": pid, "reason": NA[pid]})
        else:
            na.append({"property_id": pid, "reason": NOT_YET.get(pid, "check not built yet in this session (planned, see DESIGN.md §8); not claimed until its harness passes its self-tests")})
    man = {
        "version": 1,
        "setup_cmd": "./setup.sh",
        "hooks": {
            "guard": "FURADNIK_INCOMPLETECOOPERATIVE_VERIF",
            "enable": "no source hooks: checks import /repo's working tree in a fresh interpreter and patch it in memory (symx/bootstrap.py); the guard variable is unused",
            "baseline_off_cmd": "cd /repo && /venv/bin/python -m pytest -ra -q -p no:cacheprovider --timeout=900 --continue-on-collection-errors",
            "source_commits": [],
            "add_only": True,
        },
        "engines": [
            {"name": "symx", "path": "/verif/symx", "serves_properties": sorted(CLAIMED),
             "kind_free_text": "symbolic executor for the package's real numpy code: value dtype swapped for z3-term scalars, fork-by-re-execution, z3 decides feasibility and obligations"},
        ],
        "checks": checks,
        "not_applicable": na,
        "notes": "Exit codes: 0 all explored obligations discharged (known findings printed as KNOWN-FINDING), 1 reproduced VIOLATION, 2 harness error / inconclusive. "
                 "VERIF_REPO=<dir> runs the same checks against a scratch copy (self-tests with mutants).",
    }
    with open(os.path.join(VERIF, "MANIFEST.json"), "w") as f:
        json.dump(man, f, indent=1)
    print("claimed:", sorted(CLAIMED), "n/a:", [x["property_id"] for x in na])


if __name__ == "__main__":
    main()
