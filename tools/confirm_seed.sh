#!/bin/sh
# tools/confirm_seed.sh <worktree> <demo-dir> : confirm a seeded change independently:
#   demo fails with the change, passes without it, the baseline-stable tests still pass with it.
WT=$1; DEMO=$2
LOG=$DEMO/confirm.log
: > $LOG
cd $WT || exit 2
git diff > $DEMO/patch.confirm.diff
if ! cmp -s $DEMO/patch.confirm.diff $DEMO/patch.diff; then echo "NOTE: worktree diff differs from patch.diff; using worktree diff" >> $LOG; fi
/venv/bin/python $DEMO/demo.py > $DEMO/demo_with.out 2>&1; echo "demo_with_change_exit=$?" >> $LOG
git apply -R $DEMO/patch.confirm.diff || { echo "cannot reverse patch" >> $LOG; exit 2; }
/venv/bin/python $DEMO/demo.py > $DEMO/demo_without.out 2>&1; echo "demo_without_change_exit=$?" >> $LOG
git apply $DEMO/patch.confirm.diff || { echo "cannot re-apply patch" >> $LOG; exit 2; }
/venv/bin/python /verif/tools/run_stable.py $WT > $DEMO/stable.out 2>&1; echo "stable_tests_exit=$?" >> $LOG
tail -3 $DEMO/stable.out >> $LOG
cat $LOG
