#!/venv/bin/python
"""tools/run_stable.py <worktree> : run the pinned test command in <worktree> and check that every test the baseline
lists as stable-pass (/root/.vp/BASELINE.json) still passes.  Exit 0 iff none of them fails / errors / is missing."""
import json
import os
import subprocess
import sys
import tempfile
import xml.etree.ElementTree as ET

wt = os.path.abspath(sys.argv[1])
base = json.load(open("/root/.vp/BASELINE.json"))
stable = set(base["stable_pass"])
fd, junit = tempfile.mkstemp(suffix=".xml", prefix="stable_")
os.close(fd)
env = dict(os.environ, PYTHONDONTWRITEBYTECODE="1", OMP_NUM_THREADS="1", MKL_NUM_THREADS="1", OPENBLAS_NUM_THREADS="1")
env.pop("PYTHONPATH", None)
BASE = ["/venv/bin/python", "-m", "pytest", "-ra", "-q", "-p", "no:cacheprovider", "--timeout=900",
        "--continue-on-collection-errors", f"--junitxml={junit}"]
passed = set()
bad = set()


def run(extra):
    """One pytest run (thread pools pinned to 1: the suite is 6x faster that way); collect verdicts."""
    q = subprocess.run(BASE + extra, cwd=wt, env=env, stdout=subprocess.PIPE, stderr=subprocess.STDOUT, text=True)
    for tc in ET.parse(junit).getroot().iter("testcase"):
        name = f"{tc.get('classname')}::{tc.get('name')}"
        if any(ch.tag in ("failure", "error") for ch in tc):
            bad.add(name)
        elif not any(ch.tag == "skipped" for ch in tc):
            passed.add(name)
            bad.discard(name)
    return q


try:
    p = run(["-n", "8"])
    if stable - passed:   # test files with anything not passing under xdist are re-run serially, like the pinned command
        files = set()
        for name in stable - passed:
            parts = name.split("::")[0].split(".")
            while parts and not os.path.isfile(os.path.join(wt, *parts) + ".py"):
                parts.pop()
            files.add(os.path.join(*parts) + ".py" if parts else ".")
        print("re-running serially:", sorted(files))
        p = run([] if "." in files else sorted(files))
finally:
    os.unlink(junit)
missing = sorted(stable - passed)
print(p.stdout[-1500:])
print(f"stable={len(stable)} passed_of_stable={len(stable & passed)} not_passing={len(missing)}")
for m in missing[:20]:
    print("  NOT PASSING:", m, "(failed)" if m in bad else "(missing)")
sys.exit(0 if not missing else 1)
