#!/bin/sh
# tools/seed_matrix.sh [ids...] : run, for every kept seeded change, the quick check of the property it targets against a scratch copy
# with the change applied; prints one line per seed (exit code, reported signatures).
cd "$(dirname "$0")/.."
IDS=${*:-$(ls seeded)}
for id in $IDS; do
  d=seeded/$id
  base=""; patch=$d/patch.diff
  if [ -f $d/full.diff ]; then base="a90f285"; patch=$d/full.diff; fi
  prop=$(python3 -c "import json;print(json.load(open('$d/meta.json'))['property'])" 2>/dev/null || echo ${id%%-*})
  BASE_REV=$base ./tools/with_mutant.sh $patch ./check $prop quick > /tmp/seedrun_$id.log 2>&1; rc=$?
  sigs=$(grep -o "signature [^)]*" /tmp/seedrun_$id.log | sort -u | tr '\n' ';' | cut -c1-200)
  echo "$id -> $prop exit=$rc $(grep -c '^VIOLATION' /tmp/seedrun_$id.log) VIOLATION lines; $sigs"
done
