#!/bin/sh
# Offline set-up: install the solver bindings (and CrossHair, second engine for C18)
# from the local wheelhouse into /verif/.deps.  No network is used.
set -e
cd "$(dirname "$0")"
if [ ! -f .deps/.ok ]; then
  rm -rf .deps
  PIP_NO_INDEX=1 /venv/bin/python -m pip install --quiet --no-index --no-deps \
     --find-links /opt/veriftools/wheels --target .deps z3-solver >/dev/null
  /venv/bin/python - <<'PY'
import sys
sys.path.insert(0, ".deps")
import z3
assert z3.get_version_string().startswith("5."), z3.get_version_string()
PY
  touch .deps/.ok
fi
echo "setup ok"
