"""Import the package under analysis from the working tree, symbolically patched or plain.

Symbolic mode: `protocols.Value` is rebound to SymReal *before* the other modules are
imported, every module-level `np` is replaced by the creation proxy, symbolic-aware
min/max are injected where the package applies the builtins to values, `math.exp` is
wrapped while `generators` is imported.  Nothing under the repository is edited.
"""
from __future__ import annotations

import importlib
import math
import os
import sys
import types

import numpy as np

PKG = "incomplete_cooperative"
LIGHT = ["protocols", "functoolz", "coalitions", "coalition_ids", "game", "bounds", "shapley",
         "exploitability", "norms", "graph_game", "normalize", "game_properties",
         "supermodularity_check", "generators", "icg_gym", "icg_gym_linear", "gameplay",
         "meta_game", "evaluation", "regret"]
HEAVY = ["run.model", "solvers", "solvers.greedy", "solvers.largest_coalition", "solvers.random",
         "run.greedy", "run.best_states", "run.solve", "run.save"]


def repo_path():
    return os.environ.get("VERIF_REPO", "/repo")


class Pkg(types.SimpleNamespace):
    symbolic = False


def load(symbolic=True, heavy=False, repo=None) -> Pkg:
    repo = repo or repo_path()
    if sys.path[0] != repo:
        sys.path.insert(0, repo)
    for k in list(sys.modules):
        if k == PKG or k.startswith(PKG + "."):
            raise RuntimeError("package already imported; bootstrap must run first in a fresh interpreter")
    ns = Pkg()
    ns.symbolic = symbolic
    ns.repo = repo
    P = importlib.import_module(PKG + ".protocols")
    real_exp = math.exp
    if symbolic:
        from .values import SymReal, uexp, b_max, b_min

        P.Value = SymReal

        def sym_exp(x):
            if isinstance(x, SymReal):
                return uexp(x)
            return real_exp(x)
        math.exp = sym_exp
    try:
        names = LIGHT + (HEAVY if heavy else [])
        for name in names:
            mod = importlib.import_module(PKG + "." + name)
            setattr(ns, name.replace(".", "_"), mod)
    finally:
        math.exp = real_exp
    origin = os.path.realpath(ns.game.__file__)
    if not origin.startswith(os.path.realpath(repo) + os.sep):
        raise RuntimeError(f"package imported from {origin}, expected under {repo}")
    if symbolic:
        from .arrays import install_proxy
        for key, mod in list(vars(ns).items()):
            if isinstance(mod, types.ModuleType) and getattr(mod, "np", None) is np:
                keep = key in ("icg_gym", "icg_gym_linear")
                install_proxy(mod, keep_float64=keep)
        # gymnasium's Box needs a numeric dtype; used only for the declared spaces
        ns.icg_gym.Value = np.float64
        ns.icg_gym_linear.Value = np.float64
        ns.regret.RMValue = SymReal
        ns.bounds.min = b_min
        ns.bounds.max = b_max
        ns.generators.min = b_min
        ns.generators.max = b_max
        if heavy:
            ns.solvers_greedy.max = b_max
            ns.solvers_greedy.min = b_min
            for m in (ns.run_greedy, ns.run_best_states):
                m.max = b_max
                m.min = b_min
    return ns
