"""Import the package under analysis from the working tree, symbolically patched or plain.

Symbolic mode: `protocols.Value` is rebound to SymReal *before* the other modules are
imported, every module-level `np` is replaced by the creation proxy, symbolic-aware
min/max are injected where the package applies the builtins to values, `math.exp` is
wrapped while `generators` is imported.  Nothing under the repository is edited.
"""
from __future__ import annotations

import importlib
import math
import os
import sys
import types

import numpy as np

PKG = "incomplete_cooperative"
LIGHT = ["protocols", "functoolz", "coalitions", "coalition_ids", "game", "bounds", "shapley",
         "exploitability", "norms", "graph_game", "normalize", "game_properties",
         "supermodularity_check", "generators", "icg_gym", "icg_gym_linear", "gameplay",
         "meta_game", "evaluation", "regret"]
HEAVY = ["run.model", "solvers", "solvers.greedy", "solvers.largest_coalition", "solvers.random",
         "run.greedy", "run.best_states", "run.solve", "run.save"]


class _IndexRewriter(__import__("ast").NodeTransformer):
    """a[i] -> a[__symx_index__(i)] in every context (load, store, augmented assignment, del); slices are left alone."""

    def _wrap(self, node):
        import ast
        if isinstance(node, ast.Slice):
            return node
        if isinstance(node, ast.Tuple):
            node.elts = [self._wrap(e) for e in node.elts]
            return node
        if isinstance(node, ast.Constant):
            return node
        return ast.copy_location(ast.Call(func=ast.Name(id="__symx_index__", ctx=ast.Load()), args=[node], keywords=[]), node)

    def visit_Subscript(self, node):
        self.generic_visit(node)
        node.slice = self._wrap(node.slice)
        return node


def _symx_index(idx):
    """An object array of truth values used as an index: numpy refuses it on a plain integer / float array (no protocol hook exists),
    so it is made concrete here - all-concrete masks directly, symbolic ones by forking on every element (as SymArray.__getitem__ does)."""
    if isinstance(idx, np.ndarray) and idx.dtype == object and idx.size:
        from .values import SymBool
        flat = list(idx.flat)
        if all(isinstance(x, (bool, np.bool_, SymBool)) for x in flat):
            return np.array([bool(x) for x in flat], dtype=bool).reshape(idx.shape)
    return idx


def _install_source_hook():
    """Import hook for the package under analysis: same source files, subscripts routed through __symx_index__."""
    import ast
    import builtins
    import importlib.abc
    import importlib.machinery

    builtins.__symx_index__ = _symx_index

    class Loader(importlib.machinery.SourceFileLoader):
        def get_code(self, fullname):
            # never use (or write) cached bytecode: the code object must come from the current source through the rewriter
            path = self.get_filename(fullname)
            return self.source_to_code(self.get_data(path), path)

        def source_to_code(self, data, path, *, _optimize=-1):
            tree = ast.parse(data, path)
            tree = _IndexRewriter().visit(tree)
            ast.fix_missing_locations(tree)
            return compile(tree, path, "exec", dont_inherit=True, optimize=_optimize)

    class Finder(importlib.abc.MetaPathFinder):
        def find_spec(self, fullname, path, target=None):
            if fullname != PKG and not fullname.startswith(PKG + "."):
                return None
            spec = importlib.machinery.PathFinder.find_spec(fullname, path)
            if spec is None or not isinstance(spec.loader, importlib.machinery.SourceFileLoader):
                return spec
            spec.loader = Loader(spec.loader.name, spec.loader.path)
            return spec

    sys.meta_path.insert(0, Finder())


def repo_path():
    return os.environ.get("VERIF_REPO", "/repo")


class Pkg(types.SimpleNamespace):
    symbolic = False


def load(symbolic=True, heavy=False, repo=None) -> Pkg:
    repo = repo or repo_path()
    if sys.path[0] != repo:
        sys.path.insert(0, repo)
    for k in list(sys.modules):
        if k == PKG or k.startswith(PKG + "."):
            raise RuntimeError("package already imported; bootstrap must run first in a fresh interpreter")
    ns = Pkg()
    ns.symbolic = symbolic
    ns.repo = repo
    if symbolic:
        _install_source_hook()
    P = importlib.import_module(PKG + ".protocols")
    real_exp = math.exp
    if symbolic:
        from .values import SymReal, uexp, b_max, b_min

        P.Value = SymReal

        def sym_exp(x):
            if isinstance(x, SymReal):
                return uexp(x)
            return real_exp(x)
        math.exp = sym_exp
    try:
        names = LIGHT + (HEAVY if heavy else [])
        for name in names:
            mod = importlib.import_module(PKG + "." + name)
            setattr(ns, name.replace(".", "_"), mod)
    finally:
        math.exp = real_exp
    origin = os.path.realpath(ns.game.__file__)
    if not origin.startswith(os.path.realpath(repo) + os.sep):
        raise RuntimeError(f"package imported from {origin}, expected under {repo}")
    if symbolic:
        from .arrays import install_proxy
        for key, mod in list(vars(ns).items()):
            if isinstance(mod, types.ModuleType) and getattr(mod, "np", None) is np:
                keep = key in ("icg_gym", "icg_gym_linear")
                install_proxy(mod, keep_float64=keep)
        # gymnasium's Box needs a numeric dtype; used only for the declared spaces
        ns.icg_gym.Value = np.float64
        ns.icg_gym_linear.Value = np.float64
        ns.regret.RMValue = SymReal
        ns.bounds.min = b_min
        ns.bounds.max = b_max
        ns.generators.min = b_min
        ns.generators.max = b_max
        if heavy:
            ns.solvers_greedy.max = b_max
            ns.solvers_greedy.min = b_min
            for m in (ns.run_greedy, ns.run_best_states):
                m.max = b_max
                m.min = b_min
    return ns
