"""Carrying z3 scalars through real numpy: an object-dtype ndarray subclass whose
reductions / comparisons merge symbolically, plus a per-module `np` proxy that makes the
package's float allocations object arrays."""
from __future__ import annotations

import builtins
import types

import numpy as np
import z3

from .values import (HarnessError, SymBool, SymReal, bterm, is_symbolic, mkbool, smax, smin,
                     sreal, ssum, sym_ite, usq, usqrt)

_CMP = {np.greater, np.greater_equal, np.less, np.less_equal, np.equal, np.not_equal}


def _is_concrete_bool(x):
    return isinstance(x, (bool, np.bool_))


def _maybe_bool(arr):
    """Object array of concrete truth values -> bool array (so boolean-mask indexing works)."""
    if isinstance(arr, np.ndarray) and arr.dtype == object:
        if builtins.all(_is_concrete_bool(x) for x in arr.flat):
            return np.asarray(arr, dtype=bool).view(np.ndarray)
    return arr


def _wrap(res):
    if isinstance(res, np.ndarray) and res.dtype == object:
        return res.view(SymArray)
    return res


def _base(x):
    return x.view(np.ndarray) if isinstance(x, np.ndarray) else x


def _land(a, b):
    if _is_concrete_bool(a) and _is_concrete_bool(b):
        return bool(a) and bool(b)
    return mkbool(z3.And(bterm(a), bterm(b)))


def _lor(a, b):
    if _is_concrete_bool(a) and _is_concrete_bool(b):
        return bool(a) or bool(b)
    return mkbool(z3.Or(bterm(a), bterm(b)))


def _lnot(a):
    if _is_concrete_bool(a):
        return not a
    if isinstance(a, SymBool):
        return ~a
    return mkbool(z3.Not(bterm(a)))


_F_LAND = np.frompyfunc(_land, 2, 1)
_F_LOR = np.frompyfunc(_lor, 2, 1)
_F_LNOT = np.frompyfunc(_lnot, 1, 1)
_F_ABS = np.frompyfunc(lambda a: abs(sreal(a)), 1, 1)
_F_SQRT = np.frompyfunc(lambda a: usqrt(a), 1, 1)
_F_SQ = np.frompyfunc(lambda a: usq(a), 1, 1)
_F_MAX2 = np.frompyfunc(lambda a, b: smax([a, b]), 2, 1)
_F_MIN2 = np.frompyfunc(lambda a, b: smin([a, b]), 2, 1)


def _reduce(arr, axis, fold, initial=None, empty_error="reduction of an empty array", where=True, keepdims=False, out=None):
    base = np.asarray(arr).view(np.ndarray)
    if out is not None:
        raise HarnessError("reduction with out= on a symbolic array not modelled")
    if where is np._NoValue:
        where = True
    if keepdims is np._NoValue:
        keepdims = False
    mask = None
    if where is not True:
        mask = np.asarray(where)
        if mask.dtype == object:
            if builtins.any(not _is_concrete_bool(x) for x in mask.flat):
                raise HarnessError("reduction under a symbolic where= mask not modelled")
            mask = np.array([bool(x) for x in mask.flat], dtype=bool).reshape(mask.shape)
        mask = np.broadcast_to(mask.astype(bool), base.shape)
    if isinstance(axis, tuple):
        if builtins.sorted(a % base.ndim for a in axis) == list(range(base.ndim)):
            axis = None
        else:
            raise HarnessError("reduction over several (not all) axes on a symbolic array not modelled")
    if axis is None:
        items = [x for i, x in enumerate(base.flat) if mask is None or mask.flat[i]]
        if initial is not None:
            items.append(initial)
        if not items:
            raise ValueError(empty_error)
        r = fold(items)
        if keepdims:
            o = np.empty((1,) * base.ndim, dtype=object)
            o[(0,) * base.ndim] = r
            return o.view(SymArray)
        return r
    moved = np.moveaxis(base, axis, 0)
    mmask = np.moveaxis(mask, axis, 0) if mask is not None else None
    res = np.empty(moved.shape[1:], dtype=object)
    for idx in np.ndindex(*moved.shape[1:]):
        items = [moved[(k,) + idx] for k in range(moved.shape[0]) if mmask is None or mmask[(k,) + idx]]
        if initial is not None:
            items.append(initial)
        if not items:
            raise ValueError(empty_error)
        res[idx] = fold(items)
    if keepdims:
        res = np.expand_dims(res, axis)
    return res.view(SymArray)


def _all(items):
    if builtins.all(not is_symbolic(x) for x in items):
        return builtins.all(bool(x) for x in items)
    ts = [bterm(x) for x in items]
    return mkbool(z3.And(*ts)) if ts else True


def _any(items):
    if builtins.all(not is_symbolic(x) for x in items):
        return builtins.any(bool(x) for x in items)
    ts = [bterm(x) for x in items]
    return mkbool(z3.Or(*ts)) if ts else False


def _is_nan(v):
    return v is None or (isinstance(v, (float, np.floating)) and v != v)


def _is_inf(v):
    return isinstance(v, (float, np.floating)) and v in (float("inf"), float("-inf"))


# an exact real is never NaN / infinite; concrete floats that sit in an object array (NaN padding, "unknown" markers) are classified
# like numpy does
_CLASSIFY = {np.isnan: _is_nan, np.isinf: _is_inf, np.isfinite: lambda v: not _is_nan(v) and not _is_inf(v)}


def _classify(pred, a):
    base = np.asarray(a).view(np.ndarray) if isinstance(a, np.ndarray) else a
    if not isinstance(base, np.ndarray):
        return bool(pred(base))
    out = np.empty(base.shape, dtype=bool)
    for idx in np.ndindex(*base.shape):
        out[idx] = bool(pred(base[idx]))
    return out


class SymArray(np.ndarray):
    """Object ndarray whose reductions / comparisons stay symbolic (state merging)."""

    def __array_finalize__(self, obj):
        pass

    def __array_ufunc__(self, ufunc, method, *inputs, out=None, **kw):
        ins = [_base(x) for x in inputs]
        if out is not None:
            kw["out"] = tuple(_base(o) for o in out)
        if method == "__call__":
            if ufunc in _CMP:
                kw.pop("dtype", None)
                res = ufunc(*ins, dtype=object, **kw)
                return _wrap(_maybe_bool(res))
            if ufunc is np.logical_and:
                return _wrap(_maybe_bool(_F_LAND(*ins)))
            if ufunc is np.logical_or:
                return _wrap(_maybe_bool(_F_LOR(*ins)))
            if ufunc in (np.logical_not, np.invert):
                return _wrap(_maybe_bool(_F_LNOT(*ins)))
            if ufunc is np.absolute:
                return _wrap(_F_ABS(*ins))
            if ufunc is np.sqrt:
                return _wrap(_F_SQRT(*ins))
            if ufunc is np.square:
                return _wrap(_F_SQ(*ins))
            if ufunc is np.maximum:
                return _wrap(_F_MAX2(*ins))
            if ufunc is np.minimum:
                return _wrap(_F_MIN2(*ins))
            if ufunc in _CLASSIFY:
                return _classify(_CLASSIFY[ufunc], ins[0])
        if method == "reduce":
            axis = kw.get("axis", 0)
            initial = kw.get("initial", None)
            if initial is np._NoValue:
                initial = None
            rk = {"where": kw.get("where", True), "keepdims": kw.get("keepdims", False), "out": kw.get("out")}
            if ufunc is np.maximum:
                return _reduce(ins[0], axis, smax, initial, **rk)
            if ufunc is np.minimum:
                return _reduce(ins[0], axis, smin, initial, **rk)
            if ufunc is np.add:
                return _reduce(ins[0], axis, lambda it: ssum(it), initial if initial is not None else 0, **rk)
            if ufunc is np.logical_and:
                return _reduce(ins[0], axis, lambda it: _all(it), True, **rk)
            if ufunc is np.logical_or:
                return _reduce(ins[0], axis, lambda it: _any(it), False, **rk)
        if method == "reduceat" and ufunc is np.add and len(ins) == 2 and kw.get("axis", 0) in (0, None) and np.asarray(ins[0]).ndim == 1:
            # numpy's rule: segment i = a[idx[i]:idx[i+1]] (last one to the end); an EMPTY segment (idx[i] >= idx[i+1]) yields a[idx[i]]
            a = np.asarray(ins[0]).view(np.ndarray)
            idx = [int(i) for i in np.asarray(ins[1]).reshape(-1)]
            res = np.empty(len(idx), dtype=object)
            for i, lo in enumerate(idx):
                hi = idx[i + 1] if i + 1 < len(idx) else len(a)
                res[i] = a[lo] if lo >= hi else ssum(a[lo:hi])
            return res.view(SymArray)
        res = getattr(ufunc, method)(*ins, **kw)
        if out is not None:
            return out[0] if len(out) == 1 else out
        return _wrap(res)

    def __array_function__(self, func, types, args, kwargs):
        h = HANDLED.get(func)
        if h is not None:
            return h(*args, **kwargs)
        return super().__array_function__(func, types, args, kwargs)

    def __getitem__(self, idx):
        if isinstance(idx, np.ndarray) and idx.dtype == object:
            idx = np.array([bool(x) for x in idx.flat], dtype=bool).reshape(idx.shape)
        return super().__getitem__(idx)

    # explicit methods (numpy's own methods bypass __array_function__)
    def max(self, axis=None, out=None, keepdims=False, initial=None, where=True):
        return _reduce(self, axis, smax, initial, "zero-size array to reduction operation maximum which has no identity", where, keepdims, out)

    def min(self, axis=None, out=None, keepdims=False, initial=None, where=True):
        return _reduce(self, axis, smin, initial, "zero-size array to reduction operation minimum which has no identity", where, keepdims, out)

    def sum(self, axis=None, dtype=None, out=None, keepdims=False, initial=0, where=True):
        return _reduce(self, axis, lambda it: ssum(it), initial, where=where, keepdims=keepdims, out=out)

    def mean(self, axis=None, dtype=None, out=None, keepdims=False, where=True):
        base = self.view(np.ndarray)
        if where is not True and where is not np._NoValue:
            raise HarnessError("mean under a where= mask not modelled")
        n = base.size if axis is None else base.shape[axis]
        s = _reduce(self, axis, lambda it: ssum(it), 0, keepdims=keepdims, out=out)
        return s / n

    def all(self, axis=None, out=None, keepdims=False, where=True):
        return _reduce(self, axis, lambda it: _all(it), True, where=where, keepdims=keepdims, out=out)

    def any(self, axis=None, out=None, keepdims=False, where=True):
        return _reduce(self, axis, lambda it: _any(it), False, where=where, keepdims=keepdims, out=out)

    def argmin(self, axis=None, out=None, **kw):
        return _argext(self, axis, lambda a, b: a < b)

    def argmax(self, axis=None, out=None, **kw):
        return _argext(self, axis, lambda a, b: a > b)

    def astype(self, dtype, *a, **k):
        dt = _map_dtype(dtype)
        if dt is object:
            return np.array(self.view(np.ndarray), dtype=object, copy=True).view(SymArray)
        base = self.view(np.ndarray)
        if builtins.all(not is_symbolic(x) for x in base.flat):
            conv = np.array([float(x) if isinstance(x, SymReal) else x for x in base.flat], dtype=object)
            return conv.reshape(base.shape).astype(dtype, *a, **k)
        raise HarnessError(f"astype({dtype}) on a symbolic array (C boundary)")

    def copy(self, order="C"):
        return np.array(self.view(np.ndarray), order=order, copy=True).view(SymArray)

    def tolist(self):
        base = self.view(np.ndarray)
        if not TOLIST_SYMBOLIC_OK and builtins.any(is_symbolic(x) for x in base.flat):
            raise HarnessError("tolist() on a symbolic array (serialisation boundary)")
        return base.tolist()


# C19 carries symbolic leaves through the serialiser on purpose (placeholder codec); everywhere else tolist() on a symbolic array
# is a boundary the engine refuses to cross silently
TOLIST_SYMBOLIC_OK = False


def _argext(arr, axis, better):
    """argmin / argmax with numpy's first-index tie rule; forks over the attaining index."""
    if axis is not None:
        raise HarnessError("argmin/argmax with axis on symbolic arrays not modelled")
    items = [sreal(x) for x in np.asarray(arr).view(np.ndarray).flat]
    best = 0
    for i in range(1, len(items)):
        if better(items[i], items[best]):   # bool() forks when symbolic
            best = i
    return best


HANDLED = {}


def handles(f):
    def deco(h):
        HANDLED[f] = h
        return h
    return deco


@handles(np.max)
def _np_max(a, axis=None, out=None, keepdims=False, initial=None, where=True):
    if initial is np._NoValue:
        initial = None
    return _reduce(a, axis, smax, initial, "zero-size array to reduction operation maximum which has no identity", where, keepdims, out)


@handles(np.min)
def _np_min(a, axis=None, out=None, keepdims=False, initial=None, where=True):
    if initial is np._NoValue:
        initial = None
    return _reduce(a, axis, smin, initial, "zero-size array to reduction operation minimum which has no identity", where, keepdims, out)


@handles(np.sum)
def _np_sum(a, axis=None, dtype=None, out=None, keepdims=False, initial=0, where=True):
    if initial is np._NoValue:
        initial = 0
    return _reduce(a, axis, lambda it: ssum(it), initial, where=where, keepdims=keepdims, out=out)


def _kw(kw, allowed):
    bad = [k for k, v in kw.items() if k not in allowed and v is not None and v is not np._NoValue]
    if bad:
        raise HarnessError(f"reduction keyword(s) {bad} on a symbolic array not modelled")
    return {k: v for k, v in kw.items() if k in allowed and v is not np._NoValue}


@handles(np.mean)
def _np_mean(a, axis=None, **kw):
    return np.asarray(a).view(SymArray).mean(axis=axis, **_kw(kw, ("keepdims", "where", "out")))


@handles(np.std)
def _np_std(a, axis=None, ddof=0, **kw):
    arr = np.asarray(a).view(SymArray)
    _kw(kw, ())
    m = arr.mean(axis=axis, keepdims=True)
    n = arr.size if axis is None else arr.shape[axis]
    dev = (arr - m)
    var = _reduce(np.square(dev), axis, lambda it: ssum(it), 0) / (n - ddof)
    if isinstance(var, np.ndarray):
        return _wrap(_F_SQRT(_base(var)))
    return usqrt(var)


@handles(np.all)
def _np_all(a, axis=None, **kw):
    return np.asarray(a).view(SymArray).all(axis=axis, **_kw(kw, ("keepdims", "where", "out")))


@handles(np.any)
def _np_any(a, axis=None, **kw):
    return np.asarray(a).view(SymArray).any(axis=axis, **_kw(kw, ("keepdims", "where", "out")))


@handles(np.argmin)
def _np_argmin(a, axis=None, **kw):
    return _argext(a, axis, lambda x, y: x < y)


@handles(np.argmax)
def _np_argmax(a, axis=None, **kw):
    return _argext(a, axis, lambda x, y: x > y)


@handles(np.copy)
def _np_copy(a, order="K", subok=False):
    return np.array(np.asarray(a).view(np.ndarray), order=order, copy=True).view(SymArray)


@handles(np.isclose)
def _np_isclose(a, b, rtol=1e-05, atol=1e-08, equal_nan=False):
    def one(x, y):
        x, y = sreal(x), sreal(y)
        return abs(x - y) <= sreal(atol) + sreal(rtol) * abs(y)
    f = np.frompyfunc(one, 2, 1)
    res = f(_base(np.asarray(a)) if isinstance(a, np.ndarray) else a,
            _base(np.asarray(b)) if isinstance(b, np.ndarray) else b)
    if isinstance(res, np.ndarray):
        return _wrap(_maybe_bool(res))
    return res


@handles(np.allclose)
def _np_allclose(a, b, rtol=1e-05, atol=1e-08, equal_nan=False):
    r = _np_isclose(a, b, rtol=rtol, atol=atol)
    if isinstance(r, np.ndarray):
        return _reduce(r, None, _all) if r.size else True
    return r


@handles(np.bincount)
def _np_bincount(x, weights=None, minlength=0):
    x = np.asarray(x).view(np.ndarray)
    if weights is None:
        return np.bincount(x, minlength=minlength)
    w = np.asarray(weights).view(np.ndarray)
    size = builtins.max(int(x.max()) + 1 if x.size else 0, minlength)
    out = np.empty(size, dtype=object)
    for i in range(size):
        out[i] = SymReal(0)
    for xi, wi in zip(x.flat, w.flat):
        if _is_concrete_bool(wi):
            wi = int(wi)
        out[int(xi)] = out[int(xi)] + (wi._asreal() if isinstance(wi, SymBool) else sreal(wi))
    return out.view(SymArray)


def norm_model(x, ord=None, axis=None, keepdims=False):
    """np.linalg.norm on 1-d vectors over the exact reals (2-norm via SQ / SQRT)."""
    v = [sreal(e) for e in np.asarray(x).view(np.ndarray).flat]
    if np.asarray(x).ndim != 1 or axis is not None:
        raise HarnessError("norm model covers 1-d vectors only")
    if ord is None or ord == 2:
        return usqrt(ssum(usq(e) for e in v))
    if ord == 1:
        return ssum(abs(e) for e in v)
    if ord == np.inf:
        return smax([abs(e) for e in v]) if v else SymReal(0)
    raise HarnessError(f"norm model: unsupported ord {ord!r}")


HANDLED[np.linalg.norm] = norm_model


@handles(np.where)
def _np_where(cond, *xy):
    cond = np.asarray(cond).view(np.ndarray)
    if not xy:
        if cond.dtype == object:
            cond = np.array([bool(c) for c in cond.flat], dtype=bool).reshape(cond.shape)
        return np.where(cond)
    x, y = xy
    f = np.frompyfunc(lambda c, a, b: (a if c else b) if _is_concrete_bool(c) else sym_ite(c, a, b), 3, 1)
    return _wrap(f(cond, _base(np.asarray(x)) if isinstance(x, np.ndarray) else x,
                   _base(np.asarray(y)) if isinstance(y, np.ndarray) else y))


def _np_isnan(a, **kw):
    return _classify(_is_nan, a)


def _np_isinf(a, **kw):
    return _classify(_is_inf, a)


def _np_isfinite(a, **kw):
    return _classify(_CLASSIFY[np.isfinite], a)


def _mask_items(where, shape):
    """Broadcast a (possibly symbolic) mask to `shape`; returns an object ndarray of bool / SymBool."""
    m = np.asarray(where)
    m = m.view(np.ndarray) if isinstance(m, np.ndarray) else m
    return np.broadcast_to(m, shape)


@handles(np.copyto)
def _np_copyto(dst, src, casting="same_kind", where=True):
    d = dst.view(np.ndarray) if isinstance(dst, np.ndarray) else dst
    srcb = np.asarray(src)
    srcb = srcb.view(np.ndarray) if isinstance(srcb, np.ndarray) else srcb
    if where is True or (isinstance(where, np.ndarray) and where.dtype == bool) or isinstance(where, (bool, np.bool_)):
        if d.dtype != object and isinstance(srcb, np.ndarray) and srcb.dtype == object:
            raise HarnessError("copyto of symbolic values into a numeric array (C boundary)")
        np.copyto(d, srcb, casting="unsafe" if d.dtype == object else casting, where=where)
        return None
    mask = _mask_items(where, d.shape)
    sb = np.broadcast_to(srcb, d.shape)
    if d.dtype != object:
        raise HarnessError("copyto under a symbolic mask into a numeric array")
    for idx in np.ndindex(*d.shape):
        c = mask[idx]
        if _is_concrete_bool(c):
            if c:
                d[idx] = sb[idx]
        else:
            d[idx] = sym_ite(c, sb[idx], d[idx])
    return None


@handles(np.putmask)
def _np_putmask(a, mask, values):
    vals = np.asarray(values).view(np.ndarray).reshape(-1)
    base = a.view(np.ndarray)
    m = _mask_items(mask, base.shape)
    flat_idx = 0
    for idx in np.ndindex(*base.shape):
        v = vals[flat_idx % len(vals)]
        flat_idx += 1
        c = m[idx]
        if _is_concrete_bool(c):
            if c:
                base[idx] = v
        else:
            base[idx] = sym_ite(c, v, base[idx])
    return None


@handles(np.array_equal)
def _np_array_equal(a1, a2, equal_nan=False):
    a, b = np.asarray(a1), np.asarray(a2)
    a, b = a.view(np.ndarray), b.view(np.ndarray)
    if a.shape != b.shape:
        return False
    parts = []
    for x, y in zip(a.flat, b.flat):
        if _is_nan(x) or _is_nan(y):
            if not (equal_nan and _is_nan(x) and _is_nan(y)):
                return False
            continue
        e = (x == y)
        if _is_concrete_bool(e):
            if not e:
                return False
        else:
            parts.append(e)
    return _all(parts) if parts else True


@handles(np.nan_to_num)
def _np_nan_to_num(x, copy=True, nan=0.0, posinf=None, neginf=None):
    base = np.asarray(x).view(np.ndarray)
    # copy=False works IN PLACE on an array argument (numpy semantics): the caller's data changes
    out = base if (not copy and isinstance(x, np.ndarray) and base.dtype == object) else np.array(base, dtype=object, copy=True)
    for idx in np.ndindex(*out.shape):
        v = out[idx]
        if _is_nan(v):
            out[idx] = SymReal(nan)
        elif _is_inf(v):
            raise HarnessError("nan_to_num of an infinite entry")
    return out.view(SymArray)


@handles(np.clip)
def _np_clip(a, a_min=None, a_max=None, out=None, **kw):
    base = np.asarray(a).view(np.ndarray)
    res = np.empty(base.shape, dtype=object)
    lo = np.broadcast_to(np.asarray(a_min, dtype=object), base.shape) if a_min is not None else None
    hi = np.broadcast_to(np.asarray(a_max, dtype=object), base.shape) if a_max is not None else None
    for idx in np.ndindex(*base.shape):
        v = base[idx]
        if lo is not None:
            v = smax([v, lo[idx]])
        if hi is not None:
            v = smin([v, hi[idx]])
        res[idx] = v
    if out is not None:
        np.copyto(out.view(np.ndarray), res, casting="unsafe")
        return out
    return res.view(SymArray)


def _nan_filtered(a, axis, fold, what):
    base = np.asarray(a).view(np.ndarray)
    if axis is not None:
        raise HarnessError(f"{what} with axis on symbolic arrays not modelled")
    items = [v for v in base.flat if not _is_nan(v)]
    if not items:
        return float("nan")
    return fold(items)


@handles(np.nanmax)
def _np_nanmax(a, axis=None, **kw):
    return _nan_filtered(a, axis, smax, "nanmax")


@handles(np.nanmin)
def _np_nanmin(a, axis=None, **kw):
    return _nan_filtered(a, axis, smin, "nanmin")


@handles(np.nansum)
def _np_nansum(a, axis=None, **kw):
    return _nan_filtered(a, axis, lambda it: ssum(it), "nansum")


@handles(np.nanmean)
def _np_nanmean(a, axis=None, **kw):
    base = np.asarray(a).view(np.ndarray)
    n = builtins.sum(1 for v in base.flat if not _is_nan(v))
    return _nan_filtered(a, axis, lambda it: ssum(it), "nanmean") / n if n else float("nan")


# Functions that must also work on PLAIN object arrays (no subclass -> no dispatch protocol): the per-module numpy proxy serves these
# names directly; on purely numeric arguments they defer to numpy.
def _obj(x):
    return isinstance(x, SymArray) or (isinstance(x, np.ndarray) and x.dtype == object) or is_symbolic(x) or isinstance(x, SymReal)


def _override(name, handler):
    real = getattr(np, name)

    def f(*a, **k):
        if builtins.any(_obj(x) for x in a) or builtins.any(_obj(x) for x in k.values()):
            return handler(*a, **k)
        return real(*a, **k)
    f.__name__ = name
    return f


_OVERRIDES = {}


# ---------------------------------------------------------------- per-module numpy proxy
_CREATORS = ("zeros", "ones", "empty", "full", "fromiter", "array", "asarray", "vstack", "hstack",
             "zeros_like", "ones_like", "stack", "concatenate")
_DTYPE_POS = {"zeros": 1, "ones": 1, "empty": 1, "full": 2, "fromiter": 1, "array": 1, "asarray": 1}


def _map_dtype(dt):
    """float default / the patched alias -> object; everything else untouched."""
    if dt is None or dt is float or dt is SymReal or dt is object:
        return object
    try:
        if np.dtype(dt) == np.dtype(object):
            return object
    except TypeError:
        pass
    return dt


def _creator(name, f, keep_float64):
    pos = _DTYPE_POS.get(name)

    def g(*a, **k):
        if pos is None:
            r = f(*a, **k)
            return _wrap(r) if isinstance(r, np.ndarray) else r
        a = list(a)
        has = len(a) > pos or "dtype" in k
        given = a[pos] if len(a) > pos else k.get("dtype")
        if not has or given is None:
            if name in ("array", "asarray"):
                # dtype inferred from content: ints / bools stay concrete, floats -> object
                r = f(*a, **k)
                if isinstance(r, np.ndarray) and r.dtype.kind == "f":
                    r = r.astype(object)
                return _wrap(r) if isinstance(r, np.ndarray) else r
            newdt = object
        elif given is float or given is SymReal or given is object or (given is np.float64 and not keep_float64):
            newdt = object
        else:
            newdt = given
        if len(a) > pos:
            a[pos] = newdt
        else:
            k["dtype"] = newdt
        r = f(*a, **k)
        if newdt is object and name in ("zeros", "ones", "full") and isinstance(r, np.ndarray):
            # float allocations hold exact reals from the start (1/3 stays 1/3 instead of Python's float 0.333..)
            flat = r.reshape(-1)
            for i in range(flat.shape[0]):
                x = flat[i]
                if isinstance(x, (int, float)) and not isinstance(x, bool) and x == x and x not in (float("inf"), float("-inf")):
                    flat[i] = SymReal(x)
        return _wrap(r) if isinstance(r, np.ndarray) else r
    g.__name__ = name
    return g


class NPProxy(types.ModuleType):
    """Forwards everything to numpy except creation functions (float default -> object)."""

    def __init__(self, keep_float64=True):
        super().__init__("numpy_symx_proxy")
        self.__dict__["_keep"] = keep_float64
        self.__dict__["_cache"] = {}

    def __getattr__(self, name):
        if name in _OVERRIDES:
            return _OVERRIDES[name]
        v = getattr(np, name)
        if name in _CREATORS:
            c = self.__dict__["_cache"]
            if name not in c:
                c[name] = _creator(name, v, self.__dict__["_keep"])
            return c[name]
        return v


def install_proxy(*mods, keep_float64=True):
    proxy = NPProxy(keep_float64)
    for m in mods:
        if getattr(m, "np", None) is np:
            m.np = proxy
    return proxy


def _np_bitwise_count(x, *a, **k):
    """Population count of a symbolic id: the id is made concrete first (forks per bit, like every use as an index), then numpy's own
    function runs - so the RESULT TYPE (uint8) is numpy's as well."""
    from .values import SymBV
    if isinstance(x, SymBV):
        x = x.__index__()
    return np.bitwise_count(x, *a, **k)


if hasattr(np, "bitwise_count"):
    _OVERRIDES["bitwise_count"] = _np_bitwise_count

for _n, _h in (("isnan", _np_isnan), ("isinf", _np_isinf), ("isfinite", _np_isfinite), ("copyto", _np_copyto), ("putmask", _np_putmask),
               ("array_equal", _np_array_equal), ("nan_to_num", _np_nan_to_num), ("clip", _np_clip), ("nanmax", _np_nanmax),
               ("nanmin", _np_nanmin), ("nansum", _np_nansum), ("nanmean", _np_nanmean), ("where", _np_where), ("isclose", _np_isclose),
               ("allclose", _np_allclose)):
    _OVERRIDES[_n] = _override(_n, _h)
