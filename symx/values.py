"""Symbolic scalar domains: exact reals (z3 Real terms kept as fractions) and booleans.

These objects are stored inside *real* numpy object arrays of the package under
analysis; every arithmetic / comparison operator builds a z3 term, `bool()` of a symbolic
condition asks the engine to fork (see engine.py).
"""
from __future__ import annotations

from fractions import Fraction
import math

import numpy as np
import z3

from . import engine as _eng


class HarnessError(Exception):
    """The machinery (not the code under analysis) cannot continue."""


def _frac(x) -> Fraction | None:
    """Exact rational of a concrete Python / numpy number (None if not a number)."""
    if isinstance(x, Fraction):
        return x
    if isinstance(x, (bool, np.bool_)):
        return Fraction(int(x))
    if isinstance(x, (int, np.integer)):
        return Fraction(int(x))
    if isinstance(x, (float, np.floating)):
        f = float(x)
        if f != f or f in (float("inf"), float("-inf")):
            raise HarnessError(f"non-finite constant {f!r} entered the exact-real domain")
        return Fraction(f)
    return None


def qval(f: Fraction):
    return z3.RealVal(f.numerator) if f.denominator == 1 else z3.Q(f.numerator, f.denominator)


_ONE = Fraction(1)
_ZERO = Fraction(0)


class SymBool:
    """A z3 Bool term."""

    __slots__ = ("t",)

    def __init__(self, t):
        self.t = t

    def __bool__(self):
        return _eng.current().branch(self.t)

    def __deepcopy__(self, memo):
        return self

    def __copy__(self):
        return self

    def __invert__(self):
        return mkbool(z3.Not(self.t))

    def __and__(self, o):
        if isinstance(o, (bool, np.bool_)):
            return self if o else False
        if isinstance(o, SymBool):
            return mkbool(z3.And(self.t, o.t))
        return NotImplemented
    __rand__ = __and__

    def __or__(self, o):
        if isinstance(o, (bool, np.bool_)):
            return True if o else self
        if isinstance(o, SymBool):
            return mkbool(z3.Or(self.t, o.t))
        return NotImplemented
    __ror__ = __or__

    def __xor__(self, o):
        if isinstance(o, (bool, np.bool_)):
            return ~self if o else self
        if isinstance(o, SymBool):
            return mkbool(z3.Xor(self.t, o.t))
        return NotImplemented
    __rxor__ = __xor__

    def __eq__(self, o):
        if isinstance(o, (bool, np.bool_)):
            return self if o else ~self
        if isinstance(o, SymBool):
            return mkbool(self.t == o.t)
        return NotImplemented

    def __ne__(self, o):
        r = self.__eq__(o)
        return r if r is NotImplemented else ~r

    def __hash__(self):
        return hash(self.t)

    # numeric use of a truth value (mask arithmetic)
    def _asreal(self):
        return SymReal(z3.If(self.t, z3.RealVal(1), z3.RealVal(0)))

    def __mul__(self, o):
        if isinstance(o, (SymBool, bool, np.bool_)):
            return self & o
        return self._asreal() * o
    __rmul__ = __mul__

    def __add__(self, o):
        return self._asreal() + o
    __radd__ = __add__

    def __sub__(self, o):
        return self._asreal() - o

    def __rsub__(self, o):
        return o - self._asreal()

    def __repr__(self):
        return "SB(%s)" % self.t


def mkbool(t):
    """Wrap a z3 Bool, collapsing literals to Python bools."""
    if z3.is_true(t):
        return True
    if z3.is_false(t):
        return False
    return SymBool(t)


def bterm(x):
    """z3 Bool of a (possibly concrete) truth value."""
    if isinstance(x, SymBool):
        return x.t
    if isinstance(x, (bool, np.bool_)):
        return z3.BoolVal(bool(x))
    if isinstance(x, z3.BoolRef):
        return x
    if isinstance(x, SymReal):
        return x.nonzero_term()
    if isinstance(x, (int, np.integer, float, np.floating)):
        return z3.BoolVal(bool(x))
    raise HarnessError(f"not a truth value: {type(x)}")


def _is_nan(x):
    return isinstance(x, (float, np.floating)) and x != x


def _inf_sign(x):
    """+1 / -1 if x is an infinite float (or SymInf), else 0."""
    if isinstance(x, SymInf):
        return x.sign
    if isinstance(x, (float, np.floating)):
        f = float(x)
        if f == float("inf"):
            return 1
        if f == float("-inf"):
            return -1
    return 0


class SymInf:
    """+inf / -inf used as a sentinel next to exact reals ("no best value yet").  Only the operations whose result does not depend on
    an unknown sign are defined; anything that would be NaN or sign-dependent is an encoding boundary."""

    __slots__ = ("sign",)

    def __init__(self, sign):
        self.sign = 1 if sign > 0 else -1

    def __repr__(self):
        return "S(inf)" if self.sign > 0 else "S(-inf)"

    def __float__(self):
        return float("inf") * self.sign

    def __hash__(self):
        return hash(float(self))

    def __deepcopy__(self, memo):
        return self

    def __neg__(self):
        return SymInf(-self.sign)

    def __pos__(self):
        return self

    def __abs__(self):
        return SymInf(1)

    def __bool__(self):
        return True

    def _finite(self, o):
        return _inf_sign(o) == 0 and (isinstance(o, SymReal) or _frac(o) is not None)

    def __add__(self, o):
        so = _inf_sign(o)
        if so and so != self.sign:
            raise HarnessError("inf - inf (NaN) in the exact-real domain")
        if so or self._finite(o):
            return self
        return NotImplemented
    __radd__ = __add__

    def __sub__(self, o):
        so = _inf_sign(o)
        if so and so == self.sign:
            raise HarnessError("inf - inf (NaN) in the exact-real domain")
        if so or self._finite(o):
            return self
        return NotImplemented

    def __rsub__(self, o):
        return (-self).__add__(o)

    def _sign_of(self, o):
        so = _inf_sign(o)
        if so:
            return so
        o = SymReal.lift(o) if not isinstance(o, SymReal) else o
        if o is NotImplemented:
            return None
        if o.c is None:
            raise HarnessError("infinity multiplied / divided by a value of unknown sign")
        if o.c == 0:
            raise HarnessError("inf * 0 (NaN) in the exact-real domain")
        return 1 if o.c > 0 else -1

    def __mul__(self, o):
        sg = self._sign_of(o)
        return NotImplemented if sg is None else SymInf(self.sign * sg)
    __rmul__ = __mul__

    def __truediv__(self, o):
        if _inf_sign(o):
            raise HarnessError("inf / inf (NaN) in the exact-real domain")
        sg = self._sign_of(o)
        return NotImplemented if sg is None else SymInf(self.sign * sg)

    def __rtruediv__(self, o):
        if self._finite(o):
            return _const(_ZERO)
        return NotImplemented

    def _cmp(self, o, op):
        so = _inf_sign(o)
        if so:
            return bool(op(self.sign, so))
        if self._finite(o):
            return bool(op(self.sign, 0))
        return NotImplemented

    def __lt__(self, o):
        return self._cmp(o, lambda a, b: a < b)

    def __le__(self, o):
        return self._cmp(o, lambda a, b: a <= b)

    def __gt__(self, o):
        return self._cmp(o, lambda a, b: a > b)

    def __ge__(self, o):
        return self._cmp(o, lambda a, b: a >= b)

    def __eq__(self, o):
        so = _inf_sign(o)
        if so:
            return so == self.sign
        if o is None or self._finite(o):
            return False
        return NotImplemented

    def __ne__(self, o):
        r = self.__eq__(o)
        return r if r is NotImplemented else not r


class SymReal:
    """An exact real: either a concrete Fraction `c`, or z3 terms n/d (d None = 1)."""

    __slots__ = ("c", "_n", "d", "lin")

    # `lin`: canonical linear form (const: Fraction, {id(var): (z3 var, Fraction coeff)}) when the value is an affine combination of input
    # variables, else None.  Sums built in different association orders then get the SAME z3 term (built lazily, variables sorted by
    # AST id), so the n-ary max / min nodes de-duplicate them - at minimal knowledge every split of a coalition collapses to one term.
    @property
    def n(self):
        t = self._n
        if t is None and self.lin is not None:
            const, terms = self.lin
            parts = []
            for k in sorted(terms):
                x, co = terms[k]
                parts.append(x if co == 1 else x * qval(co))
            if const != 0 or not parts:
                parts.append(qval(const))
            t = parts[0]
            for q in parts[1:]:
                t = t + q
            self._n = t
        return t

    @n.setter
    def n(self, value):
        self._n = value

    def __new__(cls, x=0, d=None):
        if isinstance(x, SymReal) and d is None:
            return x
        o = object.__new__(cls)
        o.c = None
        o._n = None
        o.d = None
        o.lin = None
        if isinstance(x, z3.ExprRef):
            if d is None and z3.is_rational_value(x):
                o.c = x.as_fraction()
            else:
                o._n = x
                o.d = d
                if d is None and z3.is_const(x) and x.decl().kind() == z3.Z3_OP_UNINTERPRETED:
                    o.lin = (_ZERO, {x.get_id(): (x, _ONE)})
            return o
        if isinstance(x, SymBool):
            o._n = z3.If(x.t, z3.RealVal(1), z3.RealVal(0))
            return o
        f = _frac(x)
        if f is None:
            if isinstance(x, np.ndarray) and x.shape == ():
                return SymReal(x.item())
            raise TypeError(f"cannot lift {type(x)} to SymReal")
        o.c = f
        return o

    def __deepcopy__(self, memo):
        return self          # immutable value

    def __copy__(self):
        return self

    def __reduce__(self):
        raise TypeError("symbolic values do not cross a real pickle boundary")

    # -- helpers
    @staticmethod
    def lift(x):
        if isinstance(x, SymReal):
            return x
        if isinstance(x, np.ndarray):
            if x.shape == ():
                return SymReal.lift(x.item())
            return NotImplemented
        if isinstance(x, SymBool):
            return x._asreal()
        f = _frac(x)
        if f is None:
            return NotImplemented
        o = object.__new__(SymReal)
        o.c = f
        o._n = None
        o.d = None
        o.lin = None
        return o

    @property
    def is_concrete(self):
        return self.c is not None

    @property
    def num(self):
        return qval(self.c) if self.c is not None else self.n

    @property
    def t(self):
        """The z3 Real term."""
        if self.c is not None:
            return qval(self.c)
        return self.n if self.d is None else self.n / self.d

    def nonzero_term(self):
        if self.c is not None:
            return z3.BoolVal(self.c != 0)
        if self.d is None:
            return self.n != 0
        return z3.And(self.n != 0, self.d != 0)

    def _same_den(self, o):
        if self.d is None:
            return o.d is None
        return o.d is not None and self.d.eq(o.d)

    # -- arithmetic
    def _addsub(self, o, sign):
        if _is_nan(o):
            return float("nan")          # NaN padding propagates like in float arithmetic (it is never a symbolic value)
        if _inf_sign(o):
            return SymInf(_inf_sign(o) * sign)
        o = SymReal.lift(o)
        if o is NotImplemented:
            return o
        if self.c is not None and o.c is not None:
            return _const(self.c + o.c if sign > 0 else self.c - o.c)
        if o.c is not None and o.c == 0:
            return self
        if self.c is not None and self.c == 0:
            return o if sign > 0 else -o
        la, lb = _lin_of(self), _lin_of(o)
        if la is not None and lb is not None:
            terms = dict(la[1])
            for k, (x, co) in lb[1].items():
                cur = terms.get(k)
                nc = (cur[1] if cur else _ZERO) + (co if sign > 0 else -co)
                terms[k] = (x, nc)
            return _from_lin(la[0] + lb[0] if sign > 0 else la[0] - lb[0], terms)
        if self.d is None and o.d is None:
            return SymReal(self.num + o.num if sign > 0 else self.num - o.num)
        if self.c is None and o.c is None and self._same_den(o):
            return SymReal(self.n + o.n if sign > 0 else self.n - o.n, self.d)
        # general case: cross-multiply
        sn, sd = self.num, (self.d if self.d is not None else None)
        on, od = o.num, (o.d if o.d is not None else None)
        if sd is None:
            num = sn * od + on if sign > 0 else sn * od - on
            return SymReal(num, od)
        if od is None:
            num = sn + on * sd if sign > 0 else sn - on * sd
            return SymReal(num, sd)
        num = sn * od + on * sd if sign > 0 else sn * od - on * sd
        return SymReal(num, sd * od)

    def __add__(self, o):
        return self._addsub(o, 1)
    __radd__ = __add__

    def __sub__(self, o):
        return self._addsub(o, -1)

    def __rsub__(self, o):
        if _is_nan(o):
            return float("nan")
        if _inf_sign(o):
            return SymInf(_inf_sign(o))
        o = SymReal.lift(o)
        return o if o is NotImplemented else o._addsub(self, -1)

    def __neg__(self):
        if self.c is not None:
            return _const(-self.c)
        if self.lin is not None and self.d is None:
            return _from_lin(-self.lin[0], {k: (x, -co) for k, (x, co) in self.lin[1].items()})
        return SymReal(-self.n, self.d)

    def __pos__(self):
        return self

    def __abs__(self):
        if self.c is not None:
            return _const(abs(self.c))
        if self.d is None:
            return SymReal(z3.If(self.n >= 0, self.n, -self.n))
        t = self.t
        return SymReal(z3.If(t >= 0, t, -t))

    def __mul__(self, o):
        if _is_nan(o):
            return float("nan")
        if _inf_sign(o):
            return SymInf(_inf_sign(o)).__mul__(self)
        if isinstance(o, (bool, np.bool_)):
            return self if o else _const(_ZERO)
        if isinstance(o, SymBool):
            if self.c is not None:
                return SymReal(z3.If(o.t, qval(self.c), z3.RealVal(0)))
            return SymReal(z3.If(o.t, self.n, z3.RealVal(0)), self.d)
        o = SymReal.lift(o)
        if o is NotImplemented:
            return o
        if self.c is not None and o.c is not None:
            return _const(self.c * o.c)
        if self.c is not None:
            self, o = o, self
        if o.c is not None:
            if o.c == 0:
                return _const(_ZERO)
            if o.c == 1:
                return self
            if self.lin is not None and self.d is None:
                return _from_lin(self.lin[0] * o.c, {k: (x, co * o.c) for k, (x, co) in self.lin[1].items()})
            return SymReal(self.n * qval(o.c), self.d)
        # both symbolic; cancel (a/g) * g
        if self.d is not None and o.d is None and self.d.eq(o.n):
            return SymReal(self.n)
        if o.d is not None and self.d is None and o.d.eq(self.n):
            return SymReal(o.n)
        if self.d is None and o.d is None:
            return SymReal(self.n * o.n)
        if self.d is None:
            return SymReal(self.n * o.n, o.d)
        if o.d is None:
            return SymReal(self.n * o.n, self.d)
        return SymReal(self.n * o.n, self.d * o.d)
    __rmul__ = __mul__

    def __truediv__(self, o):
        if _is_nan(o):
            return float("nan")
        if _inf_sign(o):
            return _const(_ZERO)
        o = SymReal.lift(o)
        if o is NotImplemented:
            return o
        if o.c is not None:
            if o.c == 0:
                raise ZeroDivisionError("division of an exact real by concrete zero")
            if self.c is not None:
                return _const(self.c / o.c)
            if o.c == 1:
                return self
            if self.lin is not None and self.d is None:
                return _from_lin(self.lin[0] / o.c, {k: (x, co / o.c) for k, (x, co) in self.lin[1].items()})
            return SymReal(self.n / qval(o.c), self.d)
        # symbolic divisor
        if self.c is not None and self.c == 0:
            # 0/g: keep as fraction so that (0/g) compares like the others
            return SymReal(z3.RealVal(0), o.n) if o.d is None else SymReal(z3.RealVal(0) * o.d, o.n)
        if o.d is None and self.d is None:
            if self.c is None and self.n.eq(o.n):
                # g/g -- value 1 wherever defined; keep the fraction form
                return SymReal(self.n, o.n)
            return SymReal(self.num, o.n)
        sn = self.num
        if self.d is None:          # a / (c/d) = a d / c
            return SymReal(sn * o.d, o.n)
        if o.d is None:             # (a/b) / c = a / (b c)
            return SymReal(sn, self.d * o.n)
        return SymReal(sn * o.d, self.d * o.n)

    def __rtruediv__(self, o):
        if _is_nan(o):
            return float("nan")
        if _inf_sign(o):
            return SymInf(_inf_sign(o)).__truediv__(self)
        o = SymReal.lift(o)
        return o if o is NotImplemented else o.__truediv__(self)

    def __pow__(self, k):
        if isinstance(k, (int, np.integer)) and 0 <= int(k) <= 4:
            if self.c is not None:
                return _const(self.c ** int(k))
            if int(k) == 2:
                return usq(self)
            r = _const(_ONE)
            for _ in range(int(k)):
                r = r * self
            return r
        return NotImplemented

    # -- comparisons
    def _cmp(self, o, op):
        if _is_nan(o):
            return False
        if _inf_sign(o):
            return bool(op(0, _inf_sign(o)))
        o = SymReal.lift(o)
        if o is NotImplemented:
            return o
        if self.c is not None and o.c is not None:
            return bool(op(self.c, o.c))
        if self.d is None and o.d is None:
            return mkbool(op(self.num, o.num))
        if self.c is None and o.c is None and self._same_den(o):
            d = self.d
            return mkbool(z3.Or(z3.And(d > 0, op(self.n, o.n)), z3.And(d < 0, op(o.n, self.n))))
        if o.d is None:
            d = self.d
            return mkbool(z3.Or(z3.And(d > 0, op(self.n, o.num * d)), z3.And(d < 0, op(o.num * d, self.n))))
        if self.d is None:
            d = o.d
            return mkbool(z3.Or(z3.And(d > 0, op(self.num * d, o.n)), z3.And(d < 0, op(o.n, self.num * d))))
        return mkbool(op(self.t, o.t))

    def __le__(self, o):
        return self._cmp(o, lambda a, b: a <= b)

    def __lt__(self, o):
        return self._cmp(o, lambda a, b: a < b)

    def __ge__(self, o):
        return self._cmp(o, lambda a, b: a >= b)

    def __gt__(self, o):
        return self._cmp(o, lambda a, b: a > b)

    def __eq__(self, o):
        if o is None or _inf_sign(o) or _is_nan(o):
            return False
        o = SymReal.lift(o)
        if o is NotImplemented:
            return o
        if self.c is not None and o.c is not None:
            return self.c == o.c
        if self.d is None and o.d is None:
            return mkbool(self.num == o.num)
        if self.c is None and o.c is None and self._same_den(o):
            return mkbool(z3.And(self.d != 0, self.n == o.n))
        if o.d is None:
            return mkbool(z3.And(self.d != 0, self.n == o.num * self.d))
        if self.d is None:
            return mkbool(z3.And(o.d != 0, self.num * o.d == o.n))
        return mkbool(self.t == o.t)

    def __ne__(self, o):
        r = self.__eq__(o)
        if r is NotImplemented:
            return r
        return (not r) if isinstance(r, bool) else ~r

    def __bool__(self):
        if self.c is not None:
            return self.c != 0
        return _eng.current().branch(self.nonzero_term())

    def __hash__(self):
        if self.c is not None:
            return hash(self.c)
        return hash((self.n, self.d))

    def __repr__(self):
        if self.c is not None:
            return "S(%s)" % self.c
        return "S(%s)" % self.t

    def __float__(self):
        if self.c is not None:
            return float(self.c)
        raise HarnessError("symbolic value reached a float-only (C level) boundary")

    def __int__(self):
        if self.c is not None and self.c.denominator == 1:
            return int(self.c)
        raise HarnessError("symbolic value reached an int-only boundary")

    def __round__(self, nd=None):
        raise HarnessError("round() of a symbolic value")

    # numpy's object loops of np.round / np.rint / np.floor / np.ceil / np.trunc call these methods: discretisation of a real is an
    # encoding boundary (never silently approximated), so that the driver falls back to the concrete test vectors of the task
    def _discretise(self, fn, what):
        if self.c is not None:
            return SymReal(Fraction(fn(self.c)))
        raise HarnessError(f"{what} of a symbolic value (discretisation boundary)")

    def rint(self):
        return self._discretise(round, "rint()")

    def floor(self):
        return self._discretise(math.floor, "floor()")

    def ceil(self):
        return self._discretise(math.ceil, "ceil()")

    def trunc(self):
        return self._discretise(math.trunc, "trunc()")

    __floor__ = floor
    __ceil__ = ceil
    __trunc__ = trunc

    # numpy calls these on object arrays for sqrt / exp / square
    def sqrt(self):
        return usqrt(self)

    def exp(self):
        return uexp(self)

    def conjugate(self):
        return self


def _const(f: Fraction) -> SymReal:
    o = object.__new__(SymReal)
    o.c = f
    o._n = None
    o.d = None
    o.lin = None
    return o


def _from_lin(const, terms) -> SymReal:
    """Value with the canonical linear form (const, terms); collapses to a constant when no variable is left."""
    terms = {k: v for k, v in terms.items() if v[1] != 0}
    if not terms:
        return _const(const)
    o = object.__new__(SymReal)
    o.c = None
    o._n = None
    o.d = None
    o.lin = (const, terms)
    return o


def _lin_of(x):
    """(const, terms) of a SymReal that is concrete or carries a linear form and has no denominator; None otherwise."""
    if x.c is not None:
        return (x.c, {})
    if x.lin is not None and x.d is None:
        return x.lin
    return None


def sreal(x) -> SymReal:
    r = SymReal.lift(x)
    if r is NotImplemented:
        raise HarnessError(f"cannot lift {type(x)} to an exact real")
    return r


def sym_ite(c, a, b):
    """if-then-else on reals; c is a z3 Bool / SymBool / bool."""
    if isinstance(c, (bool, np.bool_)):
        r = a if c else b
        return SymInf(_inf_sign(r)) if _inf_sign(r) else sreal(r)
    if _inf_sign(a) or _inf_sign(b):
        raise HarnessError("if-then-else between an infinite sentinel and a real under a symbolic condition")
    if isinstance(c, SymBool):
        c = c.t
    a, b = sreal(a), sreal(b)
    if a.d is None and b.d is None:
        return SymReal(z3.If(c, a.num, b.num))
    if a.c is None and b.c is None and a._same_den(b):
        return SymReal(z3.If(c, a.n, b.n), a.d)
    return SymReal(z3.If(c, a.t, b.t))


def _same_term(a: SymReal, b: SymReal) -> bool:
    if a.c is not None or b.c is not None:
        return a.c is not None and b.c is not None and a.c == b.c
    if a.lin is not None and b.lin is not None and a.d is None and b.d is None:
        if a.lin[0] != b.lin[0] or len(a.lin[1]) != len(b.lin[1]):
            return False
        tb = b.lin[1]
        for k, (_x, co) in a.lin[1].items():
            y = tb.get(k)
            if y is None or y[1] != co:
                return False
        return True
    return a.n.eq(b.n) and a._same_den(b)


def _dedup(items):
    out = []
    for x in items:
        x = sreal(x)
        if not any(_same_term(x, y) for y in out):
            out.append(x)
    return out


def _split_inf(items):
    items = list(items)
    pos = any(_inf_sign(x) > 0 for x in items)
    neg = any(_inf_sign(x) < 0 for x in items)
    return [x for x in items if not _inf_sign(x)], pos, neg


def smax(items, first_wins=True):
    """n-ary max with Python/numpy tie semantics irrelevant on values (value-level)."""
    items, pos, neg = _split_inf(items)
    if pos:
        return SymInf(1)
    if neg and not items:
        return SymInf(-1)
    items = _dedup(items)
    if not items:
        raise ValueError("max() of an empty sequence")
    # fold concrete members first
    conc = [x for x in items if x.c is not None]
    sym = [x for x in items if x.c is None]
    acc = None
    if conc:
        acc = _const(max(x.c for x in conc))
    for x in sym:
        if acc is None:
            acc = x
            continue
        c = x >= acc
        acc = sym_ite(c, x, acc)
    return acc


def smin(items):
    items, pos, neg = _split_inf(items)
    if neg:
        return SymInf(-1)
    if pos and not items:
        return SymInf(1)
    items = _dedup(items)
    if not items:
        raise ValueError("min() of an empty sequence")
    conc = [x for x in items if x.c is not None]
    sym = [x for x in items if x.c is None]
    acc = None
    if conc:
        acc = _const(min(x.c for x in conc))
    for x in sym:
        if acc is None:
            acc = x
            continue
        c = x <= acc
        acc = sym_ite(c, x, acc)
    return acc


def ssum(items, start=0):
    acc = start if (_inf_sign(start) or _is_nan(start)) else sreal(start)
    for x in items:
        acc = acc + x
    return acc


def is_symbolic(x) -> bool:
    return (isinstance(x, SymReal) and x.c is None) or isinstance(x, SymBool)


def _all_real(items):
    return all(isinstance(x, (SymReal, SymInf, int, float, Fraction, np.integer, np.floating)) and not isinstance(x, bool) for x in items)


# ---------------------------------------------------------------- builtins replacements
import builtins as _b


def b_max(*args, key=None, default=None):
    """Drop-in for builtin max that merges symbolic values instead of forking."""
    items = list(args[0]) if len(args) == 1 else list(args)
    if key is None and any(is_symbolic(x) for x in items):
        return smax(items)
    if len(args) == 1 and not items and default is not None:
        return default
    return _b.max(items, key=key) if key is not None else _b.max(items)


def b_min(*args, key=None, default=None):
    items = list(args[0]) if len(args) == 1 else list(args)
    if key is None and any(is_symbolic(x) for x in items):
        return smin(items)
    if len(args) == 1 and not items and default is not None:
        return default
    return _b.min(items, key=key) if key is not None else _b.min(items)


def b_abs(x):
    return abs(x)


# ---------------------------------------------------------------- uninterpreted nonlinear functions
_SQ = z3.Function("SQ", z3.RealSort(), z3.RealSort())
_SQRT = z3.Function("SQRT", z3.RealSort(), z3.RealSort())
_EXP = z3.Function("EXP", z3.RealSort(), z3.RealSort())


def usq(x):
    if _is_nan(x):
        return x
    x = sreal(x)
    if x.c is not None:
        return _const(x.c * x.c)
    e = _eng.current()
    if e is not None and e.nonlinear == "uf":
        t = x.t
        e.note_uf("SQ", t)
        return SymReal(_SQ(t))
    return x * x


def usqrt(x):
    if _is_nan(x):
        return x
    x = sreal(x)
    if x.c is not None:
        from math import isqrt
        n, d = x.c.numerator, x.c.denominator
        if n >= 0 and isqrt(n) ** 2 == n and isqrt(d) ** 2 == d:
            return _const(Fraction(isqrt(n), isqrt(d)))
    e = _eng.current()
    t = x.t
    e.note_uf("SQRT", t)
    return SymReal(_SQRT(t))


def uexp(x):
    x = sreal(x)
    if x.c is not None and x.c == 0:
        return _const(_ONE)
    e = _eng.current()
    t = x.t
    e.note_uf("EXP", t)
    return SymReal(_EXP(t))


def uf_lemmas_for(kind, a, existing):
    """Instantiated axioms for the uninterpreted SQ / SQRT / EXP involving the NEW argument term `a`
    (single-term axioms plus all pairs with the argument terms met before)."""
    out = []
    if kind == "SQ":
        out.append(_SQ(a) >= 0)
        out.append((_SQ(a) == 0) == (a == 0))
        absa = z3.If(a >= 0, a, -a)
        for b in existing:
            absb = z3.If(b >= 0, b, -b)
            out.append(z3.Implies(absa <= absb, _SQ(a) <= _SQ(b)))
            out.append(z3.Implies(absb <= absa, _SQ(b) <= _SQ(a)))
            out.append(z3.Implies(absa < absb, _SQ(a) < _SQ(b)))
            out.append(z3.Implies(absb < absa, _SQ(b) < _SQ(a)))
    elif kind == "SQRT":
        out.append(z3.Implies(a >= 0, _SQRT(a) >= 0))
        out.append(z3.Implies(a == 0, _SQRT(a) == 0))
        out.append(z3.Implies(z3.And(a >= 0, _SQRT(a) == 0), a == 0))
        if z3.is_app(a) and a.decl().eq(_SQ):
            x = a.arg(0)
            out.append(_SQRT(a) == z3.If(x >= 0, x, -x))
        for b in existing:
            out.append(z3.Implies(z3.And(0 <= a, a <= b), _SQRT(a) <= _SQRT(b)))
            out.append(z3.Implies(z3.And(0 <= b, b <= a), _SQRT(b) <= _SQRT(a)))
            out.append(z3.Implies(z3.And(0 <= a, a < b), _SQRT(a) < _SQRT(b)))
            out.append(z3.Implies(z3.And(0 <= b, b < a), _SQRT(b) < _SQRT(a)))
    elif kind == "EXP":
        out.append(_EXP(a) > 0)
        out.append(z3.Implies(a == 0, _EXP(a) == 1))
        out.append(z3.Implies(a >= 0, _EXP(a) >= 1 + a))
        for b in existing:
            out.append(z3.Implies(a <= b, _EXP(a) <= _EXP(b)))
            out.append(z3.Implies(b <= a, _EXP(b) <= _EXP(a)))
            out.append(z3.Implies(a < b, _EXP(a) < _EXP(b)))
            out.append(z3.Implies(b < a, _EXP(b) < _EXP(a)))
    return out


# ---------------------------------------------------------------- bit-vector integers (coalition ids)
class SymBV:
    """An unsigned machine-independent integer below 2**w as a z3 bit-vector (coalition ids)."""

    __slots__ = ("t", "w")

    def __init__(self, t, w=16):
        self.t = t
        self.w = w

    def _lift(self, o):
        if isinstance(o, SymBV):
            return o.t
        if isinstance(o, (bool, np.bool_)):
            o = int(o)
        if isinstance(o, (int, np.integer)):
            return z3.BitVecVal(int(o) & ((1 << self.w) - 1), self.w)
        return None

    def _bin(self, o, f):
        b = self._lift(o)
        if b is None:
            return NotImplemented
        return mkbv(f(self.t, b), self.w)

    def _rbin(self, o, f):
        b = self._lift(o)
        if b is None:
            return NotImplemented
        return mkbv(f(b, self.t), self.w)

    def __and__(self, o): return self._bin(o, lambda a, b: a & b)
    __rand__ = __and__
    def __or__(self, o): return self._bin(o, lambda a, b: a | b)
    __ror__ = __or__
    def __xor__(self, o): return self._bin(o, lambda a, b: a ^ b)
    __rxor__ = __xor__
    def __add__(self, o): return self._bin(o, lambda a, b: a + b)
    __radd__ = __add__
    def __sub__(self, o): return self._bin(o, lambda a, b: a - b)
    def __rsub__(self, o): return self._rbin(o, lambda a, b: a - b)
    def __invert__(self): return mkbv(~self.t, self.w)
    def __rshift__(self, o): return self._bin(o, lambda a, b: z3.LShR(a, b))
    def __lshift__(self, o): return self._bin(o, lambda a, b: a << b)
    def __rlshift__(self, o): return self._rbin(o, lambda a, b: a << b)

    def _cmp(self, o, f):
        b = self._lift(o)
        if b is None:
            return NotImplemented
        return mkbool(z3.simplify(f(self.t, b)))

    def __eq__(self, o):
        if not isinstance(o, (SymBV, int, np.integer, bool, np.bool_)):
            return False
        if isinstance(o, (int, np.integer)) and not (0 <= int(o) < (1 << self.w)):
            return False
        return self._cmp(o, lambda a, b: a == b)

    def __ne__(self, o):
        r = self.__eq__(o)
        return (not r) if isinstance(r, bool) else ~r

    def __lt__(self, o): return self._cmp(o, z3.ULT)
    def __le__(self, o): return self._cmp(o, z3.ULE)
    def __gt__(self, o): return self._cmp(o, z3.UGT)
    def __ge__(self, o): return self._cmp(o, z3.UGE)

    def __bool__(self):
        return _eng.current().branch(z3.simplify(self.t != 0))

    def concretize(self):
        """Fork over the value bit by bit (most significant first): one path per feasible value."""
        e = _eng.current()
        val = 0
        for i in reversed(range(self.w)):
            if e.branch(z3.simplify(z3.Extract(i, i, self.t) == 1)):
                val |= 1 << i
        return val

    def __index__(self):
        return self.concretize()

    __int__ = __index__

    def __hash__(self):
        return hash(self.concretize())

    def __repr__(self):
        return "BV(%s)" % self.t


def mkbv(t, w):
    t = z3.simplify(t)
    if z3.is_bv_value(t):
        return t.as_long()
    return SymBV(t, w)


# ---------------------------------------------------------------- IEEE-754 binary64 (one float-semantics kernel: C15-fp)
_RNE = z3.RNE()
_F64 = z3.Float64()


class SymF64:
    """A float64 as a z3 floating-point term; every operation rounds to nearest-even like the hardware does."""

    __slots__ = ("t",)

    def __init__(self, t):
        self.t = t

    @staticmethod
    def lift(x):
        if isinstance(x, SymF64):
            return x.t
        if isinstance(x, SymReal):
            if x.c is None:
                raise HarnessError("exact-real symbolic value met a float64 symbolic value")
            return z3.FPVal(float(x.c), _F64)
        if isinstance(x, (bool, np.bool_)):
            return z3.FPVal(float(x), _F64)
        if isinstance(x, (int, float, np.integer, np.floating)):
            return z3.FPVal(float(x), _F64)
        return None

    def _bin(self, o, f, rev=False):
        b = SymF64.lift(o)
        if b is None:
            return NotImplemented
        return SymF64(f(_RNE, b, self.t) if rev else f(_RNE, self.t, b))

    def __add__(self, o): return self._bin(o, z3.fpAdd)
    def __radd__(self, o): return self._bin(o, z3.fpAdd, True)
    def __sub__(self, o): return self._bin(o, z3.fpSub)
    def __rsub__(self, o): return self._bin(o, z3.fpSub, True)
    def __mul__(self, o): return self._bin(o, z3.fpMul)
    def __rmul__(self, o): return self._bin(o, z3.fpMul, True)
    def __truediv__(self, o): return self._bin(o, z3.fpDiv)
    def __rtruediv__(self, o): return self._bin(o, z3.fpDiv, True)
    def __neg__(self): return SymF64(z3.fpNeg(self.t))
    def __abs__(self): return SymF64(z3.fpAbs(self.t))

    def _cmp(self, o, f):
        b = SymF64.lift(o)
        if b is None:
            return NotImplemented
        return mkbool(f(self.t, b))

    def __le__(self, o): return self._cmp(o, z3.fpLEQ)
    def __lt__(self, o): return self._cmp(o, z3.fpLT)
    def __ge__(self, o): return self._cmp(o, z3.fpGEQ)
    def __gt__(self, o): return self._cmp(o, z3.fpGT)
    def __eq__(self, o):
        if o is None:
            return False
        return self._cmp(o, z3.fpEQ)

    def __ne__(self, o):
        r = self.__eq__(o)
        return (not r) if isinstance(r, bool) else ~r

    def __bool__(self):
        return _eng.current().branch(z3.Not(z3.fpIsZero(self.t)))

    def __hash__(self):
        return hash(self.t)

    def __deepcopy__(self, memo):
        return self

    def __float__(self):
        raise HarnessError("symbolic float64 reached a C-level float boundary")

    def __repr__(self):
        return "F64(%s)" % self.t
