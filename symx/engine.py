"""Path exploration by re-execution, feasibility and obligations decided by z3."""
from __future__ import annotations

import time
from fractions import Fraction

import z3

_CUR = None


def current():
    return _CUR


class PathAbort(BaseException):
    """Steers the explorer; never caught by the code under analysis (BaseException)."""


class Inconclusive(Exception):
    """Raised to the harness when the solver cannot decide within its budget."""


def model_value(model, var):
    v = model.eval(var, model_completion=True)
    if z3.is_rational_value(v):
        return v.as_fraction()
    if z3.is_algebraic_value(v):
        return v.approx(30).as_fraction()
    if z3.is_true(v):
        return True
    if z3.is_false(v):
        return False
    if z3.is_int_value(v):
        return Fraction(v.as_long())
    if z3.is_bv_value(v):
        return v.as_long()
    if z3.is_fp(v):
        import struct
        bits = model.eval(z3.fpToIEEEBV(v), model_completion=True).as_long()
        return struct.unpack(">d", bits.to_bytes(8, "big"))[0].hex()
    raise ValueError(f"unsupported model value {v}")


def _num_eval(t, memo):
    """Numeric value (float / bool) of a ground z3 term that may contain the uninterpreted SQ, SQRT, EXP; raises if it is not ground."""
    import math
    key = t.get_id()
    if key in memo:
        return memo[key]
    if z3.is_rational_value(t) or z3.is_int_value(t):
        r = float(t.as_fraction()) if z3.is_rational_value(t) else float(t.as_long())
    elif z3.is_algebraic_value(t):
        r = float(t.approx(20).as_fraction())
    elif z3.is_true(t):
        r = True
    elif z3.is_false(t):
        r = False
    elif z3.is_app(t) and t.num_args() > 0:
        k = t.decl().kind()
        a = [_num_eval(c, memo) for c in t.children()]
        name = t.decl().name()
        if k == z3.Z3_OP_ADD:
            r = sum(a)
        elif k == z3.Z3_OP_SUB:
            r = a[0] - sum(a[1:])
        elif k == z3.Z3_OP_UMINUS:
            r = -a[0]
        elif k == z3.Z3_OP_MUL:
            r = 1.0
            for x in a:
                r *= x
        elif k == z3.Z3_OP_DIV:
            r = a[0] / a[1]
        elif k == z3.Z3_OP_ITE:
            r = a[1] if a[0] else a[2]
        elif k == z3.Z3_OP_LE:
            r = a[0] <= a[1]
        elif k == z3.Z3_OP_LT:
            r = a[0] < a[1]
        elif k == z3.Z3_OP_GE:
            r = a[0] >= a[1]
        elif k == z3.Z3_OP_GT:
            r = a[0] > a[1]
        elif k == z3.Z3_OP_EQ:
            r = a[0] == a[1]
        elif k == z3.Z3_OP_DISTINCT:
            r = len(set(a)) == len(a)
        elif k == z3.Z3_OP_AND:
            r = all(a)
        elif k == z3.Z3_OP_OR:
            r = any(a)
        elif k == z3.Z3_OP_NOT:
            r = not a[0]
        elif k == z3.Z3_OP_IMPLIES:
            r = (not a[0]) or a[1]
        elif k == z3.Z3_OP_TO_REAL:
            r = a[0]
        elif k == z3.Z3_OP_UNINTERPRETED and name == "SQ":
            r = a[0] * a[0]
        elif k == z3.Z3_OP_UNINTERPRETED and name == "SQRT":
            r = math.sqrt(a[0])
        elif k == z3.Z3_OP_UNINTERPRETED and name == "EXP":
            r = math.exp(a[0])
        else:
            raise ValueError(f"cannot evaluate {t.decl()}")
    else:
        raise ValueError("not ground")
    memo[key] = r
    return r


class Obligation:
    __slots__ = ("name", "status", "model", "path", "info", "slack_model")

    def __init__(self, name, status, path, model=None, info=None, slack_model=False):
        self.name = name
        self.status = status      # proved | violated | unknown | exception
        self.model = model        # dict input-name -> Fraction (violated / exception)
        self.path = path
        self.info = info
        self.slack_model = slack_model

    def as_dict(self):
        return {"name": self.name, "status": self.status, "path": self.path, "info": self.info,
                "model": None if self.model is None else {k: str(v) for k, v in self.model.items()}}


class PathResult:
    __slots__ = ("index", "pc", "value", "exception", "decisions", "choices")

    def __init__(self, index, pc, value, exception, decisions, choices=()):
        self.choices = list(choices)
        self.index = index
        self.pc = pc
        self.value = value
        self.exception = exception
        self.decisions = decisions


class Engine:
    def __init__(self, timeout_ms=10000, max_depth=400, max_paths=20000, nonlinear="nra", logic=None,
                 max_task_s=None, max_violations=12):
        self.dump_dir, self.dump_limit, self.dumped = None, 0, 0
        self.deadline = (time.time() + max_task_s) if max_task_s else None
        self.max_violations = max_violations
        self.timeout_ms = timeout_ms
        self.max_depth = max_depth
        self.max_paths = max_paths
        self.nonlinear = nonlinear
        self.solver = z3.SolverFor(logic) if logic else z3.Solver()
        self.solver.set("timeout", timeout_ms)
        self.base_assumptions = []
        self.inputs = {}            # name -> z3 const (insertion ordered)
        self.obligations = []
        self.ob_times = []
        self.paths = []
        self.stats = {"queries": 0, "solver_s": 0.0, "paths": 0, "paths_cut": 0, "unknown": 0,
                      "branch_points": 0, "infeasible_sides": 0, "exceptions": 0}
        self._levels = 0
        self.prefix = []
        self.trace = []
        self.pc = []
        self._uf = {}
        self._fresh = 0
        self._path_index = 0
        self._path_assumes = []
        self._pending = []
        self.choices = []

    # ------------------------------------------------------------ variables / assumptions
    def real(self, name):
        from .values import SymReal
        if name not in self.inputs:
            self.inputs[name] = z3.Real(name)
        return SymReal(self.inputs[name])

    def boolean(self, name):
        from .values import SymBool
        if name not in self.inputs:
            self.inputs[name] = z3.Bool(name)
        return SymBool(self.inputs[name])

    def bitvec(self, name, width=16):
        from .values import SymBV
        if name not in self.inputs:
            self.inputs[name] = z3.BitVec(name, width)
        return SymBV(self.inputs[name], width)

    def f64(self, name):
        from .values import SymF64
        if name not in self.inputs:
            self.inputs[name] = z3.FP(name, z3.Float64())
        return SymF64(self.inputs[name])

    def integer(self, name):
        if name not in self.inputs:
            self.inputs[name] = z3.Int(name)
        return self.inputs[name]

    def fresh_name(self, stem):
        self._fresh += 1
        return f"{stem}!{self._fresh}"

    def assume_global(self, *formulas):
        """Class assumptions; hold on every path (added below all path levels)."""
        assert self._levels == 0, "global assumptions must be added before exploration"
        for f in formulas:
            self.base_assumptions.append(f)
            self.solver.add(f)

    def assume(self, formula):
        """Path-level assumption (re-established on every re-execution)."""
        from .values import bterm
        f = bterm(formula)
        self._pending.append(f)
        self._path_assumes.append(f)

    # ------------------------------------------------------------ uninterpreted functions
    def note_uf(self, kind, term):
        from .values import uf_lemmas_for
        lst = self._uf.setdefault(kind, [])
        if any(term.eq(t) for t in lst):
            return
        for lem in uf_lemmas_for(kind, term, lst):
            self._pending.append(lem)
        lst.append(term)

    # ------------------------------------------------------------ solver plumbing
    def _check(self, *extra):
        self._sync()
        t0 = time.time()
        self.stats["queries"] += 1
        self.solver.push()
        try:
            for e in extra:
                self.solver.add(e)
            r = self.solver.check()
            model = self.solver.model() if r == z3.sat else None
        finally:
            self.solver.pop()
            self.stats["solver_s"] += time.time() - t0
        return str(r), model

    def _extract(self, model):
        return {k: model_value(model, v) for k, v in self.inputs.items()}

    # ------------------------------------------------------------ branching
    def branch(self, cond):
        if z3.is_true(cond):
            return True
        if z3.is_false(cond):
            return False
        i = len(self.trace)
        if i >= self.max_depth:
            self.stats["paths_cut"] += 1
            raise PathAbort("depth bound")
        if self.deadline is not None and time.time() > self.deadline and i >= len(self.prefix):
            self.stats["paths_cut"] += 1
            self.stats["task_time_budget_exhausted"] = True
            raise PathAbort("task time budget")
        guided = None
        if self._guide is not None and i >= len(self.prefix):
            guided = self._guided_direction(cond)
        if i < len(self.prefix):
            taken, forced = self.prefix[i]
        elif guided is not None:
            taken, forced = guided, False
        else:
            self._sync()
            self.stats["branch_points"] += 1
            rt, _ = self._check(cond)
            rf, _ = self._check(z3.Not(cond))
            if rt == "unknown" or rf == "unknown":
                self.stats["unknown"] += 1
                self.stats["paths_cut"] += 1
                raise PathAbort("solver unknown at a branch")
            if rt == "sat" and rf == "sat":
                taken, forced = True, False
            elif rt == "sat":
                taken, forced = True, True
                self.stats["infeasible_sides"] += 1
            elif rf == "sat":
                taken, forced = False, True
                self.stats["infeasible_sides"] += 1
            else:
                raise PathAbort("infeasible path")
        self.trace.append((taken, forced))
        lit = cond if taken else z3.Not(cond)
        self.pc.append(lit)
        # the solver is synchronised lazily: literals of replayed / decided branches are queued and asserted in one
        # frame right before the next query (a long replayed prefix then costs one push instead of one per decision)
        self._pending.append(lit)
        return taken

    def _guided_direction(self, cond):
        """Concolic pre-pass: the direction a concrete valuation takes at this branch (None if the valuation does not decide it)."""
        vec = self._guide
        if self._guide_subst is None or self._guide_subst[0] != len(self.inputs):
            sub = []
            for name, var in self.inputs.items():
                if name not in vec:
                    continue
                x = vec[name]
                try:
                    if z3.is_real(var):
                        f = Fraction(x)
                        sub.append((var, z3.RealVal(f.numerator) if f.denominator == 1 else z3.Q(f.numerator, f.denominator)))
                    elif z3.is_int(var):
                        sub.append((var, z3.IntVal(int(Fraction(x)))))
                    elif z3.is_bv(var):
                        sub.append((var, z3.BitVecVal(int(Fraction(x)), var.size())))
                except (TypeError, ValueError):
                    continue
            self._guide_subst = (len(self.inputs), sub)
        t = z3.simplify(z3.substitute(cond, *self._guide_subst[1])) if self._guide_subst[1] else cond
        if z3.is_true(t):
            return True
        if z3.is_false(t):
            return False
        # uninterpreted SQ / SQRT / EXP applications survive the substitution: evaluate them with the true functions, numerically.  This
        # only chooses a DIRECTION for the guided path (the literal taken is recorded in the path condition as usual), so the rounding
        # of the numeric evaluation cannot make a verdict unsound - at worst the guided path turns out infeasible
        try:
            v = _num_eval(t, {})
        except Exception:  # noqa: BLE001
            return None
        return v if isinstance(v, bool) else None

    def _sync(self):
        if self._pending:
            self.solver.push()
            self._levels += 1
            self.solver.add(*self._pending)
            self._pending = []

    def choose(self, n, label="choice"):
        """Nondeterministic choice of an index in range(n), explored exhaustively by forking."""
        if n <= 0:
            raise ValueError("empty choice")
        v = z3.Int(self.fresh_name(label))
        self._pending.append(z3.And(v >= 0, v < n))
        self._path_assumes.append(z3.And(v >= 0, v < n))
        pick = n - 1
        for k in range(n - 1):
            if self.branch(v == k):
                pick = k
                break
        self.choices.append(pick)
        return pick

    # ------------------------------------------------------------ obligations
    def prove(self, name, claim, slack_claim=None, bound=None, info=None):
        """Discharge `claim` under assumptions and the current path condition."""
        from .values import bterm
        claim = bterm(claim)
        _t0 = time.time()
        try:
            return self._prove(name, claim, slack_claim, bound, info)
        finally:
            self.ob_times.append((time.time() - _t0, name))

    def _prove(self, name, claim, slack_claim, bound, info):
        from .values import bterm
        if self.deadline is not None and time.time() > self.deadline and not z3.is_true(claim):
            self.stats["unknown"] += 1
            self.stats["task_time_budget_exhausted"] = True
            self.obligations.append(Obligation(name, "unknown", self._path_index, info=info))
            return "unknown"
        if z3.is_true(claim):
            self.obligations.append(Obligation(name, "proved", self._path_index, info=info))
            return "proved"
        r, model = self._check(z3.Not(claim))
        if self.dump_dir and self.dumped < self.dump_limit and r in ("sat", "unsat"):
            self._dump(name, claim, r)
        if r == "unsat":
            self.obligations.append(Obligation(name, "proved", self._path_index, info=info))
            return "proved"
        if r == "unknown":
            self.stats["unknown"] += 1
            self.obligations.append(Obligation(name, "unknown", self._path_index, info=info))
            return "unknown"
        vals = self._extract(model)
        vals["__choices__"] = list(self.choices)
        slack_used = False
        # prefer a counterexample that violates the claim by a margin (robust under float rounding in the replay):
        # a ladder of margins / value boxes, coarse to fine; slack_claim may be one formula or a callable level -> formula
        ladder = [(None, bound)] if not callable(slack_claim) else [(0, 1000), (1, 100), (2, 10)]
        # (the margin search is done for the first few violations of a task only: the driver replays a few models per signature, and at
        # large player counts every extra solve costs seconds)
        self.stats["slack_attempts"] = self.stats.get("slack_attempts", 0) + 1
        if slack_claim is not None and self.stats["slack_attempts"] <= 6:
            for level, bnd in ladder:
                sc = slack_claim(level) if callable(slack_claim) else slack_claim
                if sc is None:
                    continue
                extra = [z3.Not(bterm(sc))]
                if bnd is not None:
                    for v in self.inputs.values():
                        if z3.is_real(v):
                            extra += [v <= bnd, v >= -bnd]
                r2, m2 = self._check(*extra)
                if r2 == "sat":
                    vals = self._extract(m2)
                    vals["__choices__"] = list(self.choices)
                    slack_used = True
                    break
        centred = None
        if self.stats.get("centre_attempts", 0) < 3:          # a few per task: the driver replays only a few models per signature
            self.stats["centre_attempts"] = self.stats.get("centre_attempts", 0) + 1
            centred = self._centre(claim, slack_claim, vals)
        if centred is not None:
            vals = centred
        self.obligations.append(Obligation(name, "violated", self._path_index, model=vals, info=info,
                                           slack_model=slack_used))
        return "violated"

    def _centre(self, claim, slack_claim, vals):
        """A solver model is a vertex: it satisfies some path condition or ite guard with EQUALITY, and the float64 replay can fall on
        the other side of that comparison.  Collect a few more counterexamples that differ from the first one in some input, and return
        a convex combination that is itself a counterexample (checked by evaluating assumptions, path condition and the negated claim
        under the candidate) - an interior point of the violating region, robust under rounding.  None if nothing better was found."""
        reals = [(k, v) for k, v in self.inputs.items() if z3.is_real(v) and isinstance(vals.get(k), Fraction)]
        if not reals or len(reals) > 400:
            return None
        neg = []
        if callable(slack_claim):
            for level in (0, 1, 2):
                try:
                    sc = slack_claim(level)
                except Exception:  # noqa: BLE001
                    sc = None
                if sc is not None:
                    from .values import bterm
                    neg.append(z3.Not(bterm(sc)))
        neg.append(z3.Not(claim))
        base = [a for a in self.solver.assertions()]

        def holds(cand, goal):
            sub = [(v, z3.RealVal(cand[k].numerator) if cand[k].denominator == 1 else z3.Q(cand[k].numerator, cand[k].denominator))
                   for k, v in reals]
            for a in base + [goal]:
                t = z3.simplify(z3.substitute(a, *sub))
                if not z3.is_true(t):
                    return False
            return True
        import random as _r
        rnd = _r.Random(len(self.obligations) * 7919 + len(reals))
        for goal in neg:
            pts = []
            first = {k: vals[k] for k, _ in reals}
            if holds(first, goal):
                pts.append(first)
            tries = 0
            while len(pts) < 4 and tries < 8:
                tries += 1
                k, v = reals[rnd.randrange(len(reals))]
                ref = (pts[-1] if pts else first)[k]
                delta = Fraction(1, 8) * (1 + abs(ref))
                side = v >= ref + delta if rnd.random() < 0.5 else v <= ref - delta
                extra = [goal, side] + [c for _, w in reals for c in (w <= 1000, w >= -1000)]
                r, m = self._check(*extra)
                if r != "sat":
                    continue
                mv = self._extract(m)
                pts.append({kk: mv[kk] for kk, _ in reals})
            if len(pts) < 2:
                continue
            cands = [{k: sum(p[k] for p in pts) / len(pts) for k, _ in reals}]
            cands += [{k: (pts[i][k] + pts[j][k]) / 2 for k, _ in reals} for i in range(len(pts)) for j in range(i + 1, len(pts))]
            for c in cands:
                if holds(c, goal):
                    out = dict(vals)
                    out.update(c)
                    self.stats["centred_models"] = self.stats.get("centred_models", 0) + 1
                    return out
        return None

    def prove_external(self, name, claim, timeout_s=150, info=None, binary="cvc5"):
        """Discharge a floating-point obligation with the cvc5 binary (SMT-LIB2 export of assumptions ∧ path ∧ ¬claim).
        unsat -> proved, sat -> violated with the model's float inputs, anything else -> unknown (inconclusive)."""
        import os
        import re
        import shutil
        import struct
        import subprocess
        import tempfile
        from .values import bterm
        t0 = time.time()
        self._sync()
        exe = shutil.which(binary)
        if exe is None:
            self.stats["unknown"] += 1
            self.obligations.append(Obligation(name, "unknown", self._path_index, info=dict(info or {}, why=f"{binary} not on PATH")))
            return "unknown"
        s = z3.Solver()
        for a in self.solver.assertions():
            s.add(a)
        s.add(z3.Not(bterm(claim)))
        text = "(set-logic QF_FP)\n" + s.to_smt2().replace("(check-sat)", "(check-sat)\n(get-model)")
        fd, path = tempfile.mkstemp(suffix=".smt2", prefix="symx_")
        os.write(fd, text.encode())
        os.close(fd)
        self.stats["queries"] += 1
        try:
            p = subprocess.run([exe, "--produce-models", path], capture_output=True, text=True, timeout=timeout_s)
            outp = p.stdout
        except subprocess.TimeoutExpired:
            outp = "timeout"
        finally:
            os.unlink(path)
            self.stats["solver_s"] += time.time() - t0
            self.ob_times.append((time.time() - t0, name))
        first = outp.strip().splitlines()[0] if outp.strip() else ""
        if "(error" in outp:
            first = "error"
        if first == "unsat":
            self.obligations.append(Obligation(name, "proved", self._path_index, info=info))
            return "proved"
        if first != "sat":
            self.stats["unknown"] += 1
            self.obligations.append(Obligation(name, "unknown", self._path_index, info=dict(info or {}, why=first[:40])))
            return "unknown"
        vals = {}
        for m in re.finditer(r"\(define-fun\s+(\S+)\s+\(\)\s+\(_ FloatingPoint 11 53\)\s+\(fp #b([01]) #b([01]{11}) #b([01]{52})\)\)", outp):
            bits = int(m.group(2) + m.group(3) + m.group(4), 2)
            vals[m.group(1)] = struct.unpack(">d", bits.to_bytes(8, "big"))[0].hex()
        model = {k: vals.get(k, "0x0.0p+0") for k in self.inputs}
        model["__choices__"] = list(self.choices)
        self.obligations.append(Obligation(name, "violated", self._path_index, model=model, info=info))
        return "violated"

    def _dump(self, name, claim, verdict):
        """Export assumptions ∧ path ∧ ¬claim as SMT-LIB2 for the cross-solver diff (z3 verdict in the first line)."""
        import os
        s = z3.Solver()
        for a in self.solver.assertions():
            s.add(a)
        s.add(z3.Not(claim))
        text = s.to_smt2()
        if "fp." in text or "FloatingPoint" in text or "BitVec" in text:
            return
        self.dumped += 1
        fn = os.path.join(self.dump_dir, f"ob_{os.getpid()}_{self.dumped}.smt2")
        with open(fn, "w") as f:
            f.write(f"; z3={verdict} obligation={name}\n(set-logic ALL)\n" + text)

    def witness(self):
        """Reachability witness for the current path: assumptions ∧ pc satisfiable?"""
        r, model = self._check()
        return r, (self._extract(model) if model is not None else None)

    # ------------------------------------------------------------ exploration
    def run(self, body, exception_is_result=True, before_path=None, guides=()):
        """Execute body() once per feasible path. Returns the list of PathResult.

        `guides`: concrete valuations (name -> rational).  Each is followed first, as ONE path whose branch directions are those the
        valuation takes (concolic pre-pass); the claims on that path are still decided by the solver for ALL values satisfying its path
        condition.  The systematic depth-first exploration follows.  Under path explosion (budget cuts) the guided paths make sure the
        regions around the listed valuations are covered; they never replace the systematic pass."""
        global _CUR
        from .values import HarnessError
        prev = _CUR
        _CUR = self
        self.prefix = []
        results = []
        pending_guides = list(guides)
        try:
            while True:
                self.solver.push()         # frame holding this path's assumes / lemmas
                self._reset_path_inner()
                self._guide = pending_guides.pop(0) if pending_guides else None
                self._guide_subst = None
                was_guided = self._guide is not None
                if was_guided:
                    self.prefix = []
                    self.stats["guided_paths"] = self.stats.get("guided_paths", 0) + 1
                if before_path is not None:
                    before_path()
                value, exc = None, None
                aborted = False
                try:
                    value = body()
                except PathAbort:
                    aborted = True
                except (HarnessError, Inconclusive):
                    raise
                except Exception as e:  # noqa: BLE001 - behaviour of the code under analysis
                    if not exception_is_result:
                        raise
                    exc = e
                    r, model = self._check()
                    if r == "unsat":
                        # the path itself is infeasible (possible on a guided path whose valuation lies outside the assumptions):
                        # nothing was shown about the code
                        aborted = True
                        exc = None
                        self._path_index += 0
                    else:
                        self.stats["exceptions"] += 1
                    vals = self._extract(model) if model is not None else None
                    if vals is not None:
                        vals["__choices__"] = list(self.choices)
                    if not aborted:
                        self.obligations.append(Obligation(
                            "no-exception", "exception", self._path_index, model=vals,
                            info={"type": type(e).__name__, "message": str(e)[:300]}))
                if not aborted:
                    results.append(PathResult(self._path_index, list(self._path_assumes) + list(self.pc),
                                              value, exc, list(self.trace), self.choices))
                    self.stats["paths"] += 1
                self._path_index += 1
                dec = list(self.trace)
                # unwind solver frames of this path
                while self._levels:
                    self.solver.pop()
                    self._levels -= 1
                self.solver.pop()
                if was_guided:
                    # guided paths do not take part in the depth-first bookkeeping: the systematic pass starts from scratch afterwards
                    self._guide = None
                    self.prefix = []
                    nviol = sum(1 for o in self.obligations if o.status in ("violated", "exception")
                                and not (o.info or {}).get("canary"))
                    if nviol >= self.max_violations:
                        self.stats["stopped_after_violations"] = nviol
                        break
                    continue
                while dec and (dec[-1][1] or dec[-1][0] is False):
                    dec.pop()
                if not dec:
                    break
                self.prefix = dec[:-1] + [(False, False)]
                nviol = sum(1 for o in self.obligations if o.status in ("violated", "exception")
                            and not (o.info or {}).get("canary"))
                if nviol >= self.max_violations:
                    self.stats["stopped_after_violations"] = nviol
                    break
                if self.deadline is not None and time.time() > self.deadline:
                    self.stats["paths_cut"] += 1
                    self.stats["task_time_budget_exhausted"] = True
                    break
                if self._path_index >= self.max_paths:
                    self.stats["paths_cut"] += 1
                    self.stats["path_budget_exhausted"] = True
                    break
        finally:
            _CUR = prev
        self.paths = results
        return results

    _guide = None
    _guide_subst = None

    def _reset_path_inner(self):
        self.trace, self.pc = [], []
        self._uf = {}
        self._fresh = 0
        self._path_assumes = []
        self._levels = 0
        self._pending = []
        self.choices = []
